#!/bin/bash
# run_bounded.sh <bounded/x.go.txt> [repo] [tier] : run one bounded stand-in alone against the real code
set -u
export GOFLAGS=-mod=mod GOPROXY=off GOSUMDB=off GOTOOLCHAIN=local
f=$(readlink -f "$1"); repo=${2:-/repo}; tier=${3:-quick}
hdr=$(head -1 "$f")
pkg=$(echo "$hdr" | grep -o 'pkg=[^ ]*' | cut -d= -f2); file=$(echo "$hdr" | grep -o 'file=[^ ]*' | cut -d= -f2); run=$(echo "$hdr" | grep -o 'run=[^ ]*' | cut -d= -f2)
ov=$(mktemp /tmp/ovb-XXXXXX.json)
echo "{\"Replace\":{\"$repo/$pkg/$file\":\"$f\"}}" > $ov
(cd $repo/$pkg && VERIF_TIER=$tier VERIF_SEED=1 go test -tags verif -overlay $ov -vet=off -count=1 -v -timeout 600s -run "^$run\$" . 2>&1 | grep "BOUNDED-RESULT\|^---\|panic\|FAIL\|^ok" | cut -c1-1500)
rm -f $ov
