#!/bin/bash
# with_seed.sh <patch.diff> <command...> : apply a seeded change to /repo, run the command, undo it.
# Refuses to run when /repo has uncommitted changes (they would be lost by the undo).
set -u
if [ -n "$(git -C /repo status --porcelain)" ]; then echo "with_seed: /repo is not clean; commit first"; exit 3; fi
patch=$1; shift
git -C /repo apply "$patch" || { echo "with_seed: patch does not apply"; exit 4; }
timeout ${SEED_TIMEOUT:-600} "$@"; rc=$?
git -C /repo checkout -- . ; git -C /repo clean -fdq
exit $rc
