#!/usr/bin/env python3
# Regenerates /verif/MANIFEST.json from the table below (kept in one place so that the
# claimed list, the not_applicable list and the hook commits stay consistent).
import json, subprocess
props=[json.loads(l)['id'] for l in open('/verif/properties.jsonl')]
TECH="contract-based deductive verification: //@ contracts on the real functions (build-tag-guarded comment files in /repo), verification conditions generated from go/ssa by /verif/govc on every run, discharged by z3 5.1 / z3 4.8 / cvc5; counterexamples replayed on the real code via go test -overlay"
BASE="Trusted: go/ssa+go/types (x/tools v0.29.0) as the semantics of the source; z3/cvc5 for unsat; contracts marked `trusted`/`extern` (listed in the evidence trusted_base); mathematical integers; sequential semantics; user callbacks modelled as arbitrary (may return anything / panic with anything where the contract says maypanic). Abstractions applied per function are listed in the evidence."
claimed={
 "C01":("Kernel only. Deductive contracts on the plan-time static/dynamic argument split (valueHasVariables, astHasVariables, planArguments: a variable anywhere in an argument forces per-request coercion) and call-site obligations of the planned execution walk (executePlannedSelection resolves only planned fields with a field definition; abstract values continue with the plan of the runtime type). Collection/merging of selections and directive predicates are not yet under contract.","DESIGN.md §4 C01"),
 "C02":("Kernel only. Deductive contracts on what the rules rest on: the type relations (isEqualType, isTypeSubTypeOf, GetNullable against their recursive specification), the two memo tables of the overlapping-fields rule (a memo hit is returned exactly when the pair was recorded at least as strictly), and type tracking (TypeInfo.Enter pushes, per node kind, exactly the stacks and the input types the validation rules read). The 24 rule visitors themselves are not under contract.","DESIGN.md §4 C02"),
 "C03":("Lexer proved: every lexer function carries pre/postconditions, loop invariants, variants and an `assigns nothing` frame against the lexical grammar transcribed as recursive spec functions (token kind, start, end, value span, and when lexing must fail), for all byte strings. Parser: the token-stream helpers (advance, skip, expect, expectKeyWord, peek, loc, unexpected), parseName/parseNamed and parseType are under contract (with the lexer as an arbitrary callback); the other productions are not yet.","DESIGN.md §4 C03"),
 "C04":("Deductive contracts on the functions that decide well-formedness under adversarial resolvers: coerceInt (nil or 32-bit int for every dynamic type incl. NaN/float32 rounding), completeLeafValue (non-nil leaf is never nullish), handleFieldError (non-null re-panics, nullable appends exactly one error), resolvePlannedField (a failed field returns nil, never the raw value; resolver may panic with anything), completePlannedAbstractValue (the runtime type was checked to be a possible type on every path that continues), ResponsePath.","DESIGN.md §4 C04"),
 "C05":("Kernel: coerceInt as Int.ParseValue (accepts exactly the conformant values of every numeric Go type, rejects out-of-range) and the plan-time argument split (no variable-bearing argument is pre-coerced without variables). Variable coercion of lists/input objects is not yet under contract.","DESIGN.md §4 C05"),
 "C06":("Kernel: resolvePlannedField hands every resolver a fresh argument map (never the plan's static map), proved as a call-site obligation; plan-time split contracts shared with C01/C05. Cache key / LRU contracts not yet written.","DESIGN.md §4 C06"),
 "C11":("Kernel. isEqualType / isTypeSubTypeOf proved against the covariance/invariance specification; assertObjectImplementsInterface proved (loop-iteration postconditions) to have checked, for every interface field it accepts, the covariant result type and that every additional object-field argument is nullable; Schema.AppendType proved to re-link implementations on every successful path. typeMapReducer and the constructors are not yet under contract.","DESIGN.md §4 C11"),
 "C14":("Type-tracking part only: TypeInfo.Enter is proved, per node kind, to push exactly one entry on exactly the stacks Leave pops, and the pushed input type is the list item type / the input-object field type of the (unwrapped) enclosing input type. visitor.Visit itself (reflection-driven) is outside the verifier's reach and not claimed.","DESIGN.md §4 C14"),
 "C17":("All five start handlers, the finish-handler closures and addExtensionResults are proved not to exit by panic for any number of extensions whose hooks may panic with a value of any dynamic type; Do and ExecutePlan are proved to call the finish handler of every started phase on every return path (call-count obligations at each return).","DESIGN.md §4 C17"),
 "C18":("Token Start/End offsets and every lexer call of NewSyntaxError are proved to carry the byte offset of the offending lexeme; NewLocatedErrorWithPath / ResponsePath contracts prove that the path attached to a field error is the key sequence of that field (WithKey/AsArray, list indices as call-site obligations). GetLocation's line/column arithmetic is proved against the match list of the line-terminator pattern (FindAllIndex assumed to return the terminators); expect/expectKeyWord/unexpected are proved to report the current token's start.","DESIGN.md §4 C18"),
 "C20":("Call-site obligations on every callback invocation of the planned execution walk: resolvePlannedField passes Source, Context, Args (fresh), FieldName, FieldASTs, Path, ReturnType, ParentType, RootValue, Operation, VariableValues exactly as specified; list elements are completed with path.WithKey(i); object/abstract completion passes the value, the runtime type and the plan of the runtime type; IsTypeOf/ResolveType receive the value and the caller's context.","DESIGN.md §4 C20"),
}
na_reasons={
 "C15":"goroutine/channel/select scheduling of the subscription pipeline: a sequential per-call contract cannot express it and govc does not model channels",
 "C16":"race between ctx.Done() and the result channel in ExecutePlan's select: no per-call contract expresses 'at every cancellation point'; govc does not model select",
}
m={"version":1,
 "setup_cmd":"cd /verif/govc && GOFLAGS=-mod=mod GOPROXY=off GOSUMDB=off GOTOOLCHAIN=local go build -o /verif/bin/govc .",
 "hooks":{"guard":"verif","enable":"-tags verif (the hook files zz_verif_contracts.go contain only comments; govc loads /repo with the tag)","baseline_off_cmd":"cd /repo && GOFLAGS=-mod=mod GOPROXY=off go test -vet=off -count=1 ./...","add_only":True,"source_commits":[]},
 "engines":[{"name":"govc","path":"/verif/govc","serves_properties":sorted(claimed),"kind_free_text":"home-grown contract-based deductive verifier for Go: go/ssa (naive form) symbolic execution -> SMT-LIB, live z3 session per function + z3/z3-new/cvc5 race, replay through go test -overlay"}],
 "checks":[],"not_applicable":[]}
log=subprocess.check_output(['git','-C','/repo','log','--format=%h %s']).decode().split('\n')
m['hooks']['source_commits']=[l.split()[0] for l in log if 'verif hooks' in l]
for pid in sorted(claimed):
    text,ref=claimed[pid]
    m['checks'].append({"property_id":pid,"quick_cmd":"./check %s quick"%pid,"thorough_cmd":"./check %s thorough"%pid,
      "evidence_file":"/verif/evidence/%s.json"%pid,"replay_cmd_template":"cat {path}","engine":"govc",
      "level_claimed":{"category":"proof","text":text,"design_ref":ref},"level_note":BASE,"technique":TECH})
for p in props:
    if p in claimed: continue
    m['not_applicable'].append({"property_id":p,"reason":na_reasons.get(p,"no contract within reach written yet in this session; not claimed (see DESIGN.md)")})
json.dump(m,open('/verif/MANIFEST.json','w'),indent=1)
print("claimed:",sorted(claimed))
