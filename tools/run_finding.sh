#!/bin/bash
# run_finding.sh <findings/X_test.go.txt> [repo-dir] [pkg-dir] : run a witness test against the real code
# through `go test -overlay` (nothing is written into the repository).
set -u
export GOFLAGS=-mod=mod GOPROXY=off GOSUMDB=off GOTOOLCHAIN=local
f=$(readlink -f "$1"); repo=${2:-/repo}; dir=${3:-.}
ov=$(mktemp /tmp/ov-XXXXXX.json)
echo "{\"Replace\":{\"$repo/$dir/zz_finding_test.go\":\"$f\"}}" > $ov
name=$(grep -o 'func Test[A-Za-z0-9_]*' "$f" | head -1 | sed 's/func //')
(cd $repo/$dir && go test -overlay $ov -vet=off -count=1 -timeout 120s -run "^${name}\$" . 2>&1 | tail -15)
rm -f $ov
