#!/bin/bash
# Runs every claimed check (quick) on /repo as it is and leaves the evidence files in place.
cd /verif
for p in $(python3 -c "import json;print(' '.join(c['property_id'] for c in json.load(open('MANIFEST.json'))['checks']))"); do
  s=$(date +%s); ./check $p quick > /tmp/runall-$p.log 2>&1; rc=$?; e=$(date +%s)
  echo "$p rc=$rc $((e-s))s $(grep -c '^KNOWN-FINDING' /tmp/runall-$p.log) known, $(grep -c '^VIOLATION' /tmp/runall-$p.log) violations; $(grep '^SUMMARY' /tmp/runall-$p.log | cut -d' ' -f3-6)"
done
