#!/bin/bash
# seed_matrix.sh [seed-dir ...] : for every kept seeded change under /verif/seeded, apply it to a scratch
# worktree of /repo HEAD (never to /repo itself), run the quick check of its property against that
# worktree, and record whether the check raised an alarm. Results: /verif/seeded/MATRIX.tsv
set -u
export GOFLAGS=-mod=mod GOPROXY=off GOSUMDB=off GOTOOLCHAIN=local
cd /verif
WT=/tmp/mx-wt-$$; ALT=/tmp/mx-verif-$$
git -C /repo worktree add --detach $WT HEAD >/dev/null 2>&1 || exit 1
mkdir -p $ALT; cp known_findings.json levels.json $ALT/; cp -r bounded $ALT/
claimed=$(python3 -c "import json;print(' '.join(c['property_id'] for c in json.load(open('MANIFEST.json'))['checks']))")
seeds="$@"; [ -z "$seeds" ] && seeds=$(ls -d seeded/C*-* | sort)
for d in $seeds; do
  id=$(basename $d); prop=${id%-*}
  kept=$(python3 -c "import json;print(json.load(open('$d/meta.json')).get('kept'))")
  [ "$kept" = "True" ] || continue
  if ! echo " $claimed " | grep -q " $prop "; then echo -e "$id\t$prop\tnot-claimed\t-\t-"; continue; fi
  git -C $WT checkout -q -- . ; git -C $WT clean -fdq
  if ! git -C $WT apply /verif/$d/patch.diff 2>/dev/null; then echo -e "$id\t$prop\tpatch-does-not-apply\t-\t-"; continue; fi
  s=$(date +%s)
  bin/govc check -prop $prop -tier quick -repo $WT -verif $ALT > $ALT/$id.log 2>&1; rc=$?
  e=$(date +%s)
  obl=$(grep '^VIOLATION' $ALT/$id.log | sed 's/.*replays\/[^/]*\///; s/\.json.*//' | tr '\n' ',' )
  wit=$(grep '^VIOLATION' $ALT/$id.log | grep -vc no-failing-input-found)
  echo -e "$id\t$prop\trc=$rc\t$((e-s))s\twitnessed=$wit\t$obl"
done | tee ${MATRIX_OUT:-seeded/MATRIX.tsv}
git -C /repo worktree remove --force $WT; rm -rf $ALT
