#!/bin/bash
# confirm_seed.sh <PROP> <N> : confirm a sub-agent's seeded change in a scratch worktree of /repo HEAD
# and store it under /verif/seeded/<PROP>-<N>/ (patch.diff, demo, meta.json).
set -u
export GOFLAGS=-mod=mod GOPROXY=off GOSUMDB=off GOTOOLCHAIN=local
P=$1; N=$2
SRC=/tmp/seed/$P/SEED/$N
[ -f $SRC/patch.diff ] || { echo "$P-$N: no patch"; exit 1; }
WT=/tmp/cs-$P-$N
git -C /repo worktree remove --force $WT >/dev/null 2>&1
git -C /repo worktree add --detach $WT HEAD >/dev/null 2>&1 || exit 1
cd $WT
DIR=$(python3 -c "import json;print(json.load(open('$SRC/meta.json')).get('demo_pkg_dir','.'))")
NAME=$(python3 -c "import json;print(json.load(open('$SRC/meta.json')).get('demo_file_name','zz_seed_demo_test.go'))")
RUN=$(python3 -c "import json;print(json.load(open('$SRC/meta.json')).get('demo_run_cmd',''))")
[ -z "$RUN" ] && RUN="go test -vet=off -count=1 -run TestSeedDemo ./$DIR"
cp $SRC/demo_test.go $DIR/$NAME
A=$(eval "$RUN" 2>&1 | tail -3); echo "$A" | grep -q "^ok" && a=pass || a=fail
if ! git apply --check $SRC/patch.diff 2>/dev/null; then echo "$P-$N: patch does not apply to current HEAD"; applies=no; else applies=yes; git apply $SRC/patch.diff; fi
b=na; c=na
if [ $applies = yes ]; then
  go build ./... >/dev/null 2>&1 && build=ok || build=fail
  B=$(eval "$RUN" 2>&1 | tail -15); echo "$B" | grep -q "FAIL" && b=fail || b=pass
  rm -f $DIR/$NAME
  C=$(go test -vet=off -count=1 ./... 2>&1 | tail -12); echo "$C" | grep -q "FAIL" && c=fail || c=pass
  if [ $c = fail ]; then C2=$(go test -vet=off -count=1 ./... 2>&1 | tail -12); echo "$C2" | grep -q "FAIL" && c=fail || c=pass-on-rerun; fi
fi
OUT=/verif/seeded/$P-$N
mkdir -p $OUT
cp $SRC/patch.diff $OUT/patch.diff; cp $SRC/demo_test.go $OUT/demo_test.go
A_=$a B_=$b C_=$c APPLIES=$applies RUN_="$RUN" SRC_=$SRC OUT_=$OUT BASE_=$(git -C /repo rev-parse --short HEAD) PN="$P-$N" python3 - <<'PY'
import json,os
e=os.environ
m=json.load(open(e['SRC_']+'/meta.json'))
m['confirmed']={'base':e['BASE_'],'demo_without_patch':e['A_'],'patch_applies':e['APPLIES'],'demo_with_patch':e['B_'],'suite_with_patch':e['C_'],
 'ran':['copy demo into a scratch worktree of /repo HEAD; '+e['RUN_'],'git apply patch.diff; go build ./...; '+e['RUN_'],'rm demo; go test -vet=off -count=1 ./...']}
m['kept']= (e['A_']=='pass' and e['B_']=='fail' and e['C_'].startswith('pass'))
json.dump(m,open(e['OUT_']+'/meta.json','w'),indent=1)
print(e['PN'], 'demo_without=%s applies=%s demo_with=%s suite=%s kept=%s'%(e['A_'],e['APPLIES'],e['B_'],e['C_'],m['kept']))
PY
cd /; git -C /repo worktree remove --force $WT >/dev/null 2>&1
