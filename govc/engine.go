package main

import (
	"fmt"
	"go/ast"
	"go/token"
	"go/types"
	"os"
	"path/filepath"
	"sort"
	"strconv"
	"strings"
	"sync"

	"golang.org/x/tools/go/packages"
	"golang.org/x/tools/go/ssa"
	"golang.org/x/tools/go/ssa/ssautil"
)

type Engine struct {
	implCache map[string][]int
	repo      string
	prog      *ssa.Program
	pkgs      []*packages.Package
	spkgs     map[string]*ssa.Package
	tpkgs     map[string]*types.Package
	contracts *Contracts
	mu        sync.Mutex
	typeIDs   map[string]int
	typeByID  map[int]types.Type
	funcIDs   map[*ssa.Function]int
	globalIDs map[*ssa.Global]int
	loopCache map[*ssa.Function]*loopInfo
	ordCache  map[*ssa.Function]map[ssa.Instruction]int
	escCache  map[*ssa.Alloc]bool
	sizeCache map[*ssa.Function]int
	fnByKey   map[string]*ssa.Function
	byFn      map[*ssa.Function]*FuncContract
	idCache   map[string]bool
	unbound   []string
}

func LoadEngine(repo string, patterns []string) (*Engine, error) {
	cfg := &packages.Config{
		Mode:       packages.LoadAllSyntax,
		Dir:        repo,
		BuildFlags: []string{"-tags=verif"},
		Env:        append(os.Environ(), "GOFLAGS=-mod=mod", "GOPROXY=off", "GOSUMDB=off", "GOTOOLCHAIN=local"),
	}
	pkgs, err := packages.Load(cfg, patterns...)
	if err != nil {
		return nil, err
	}
	nerr := 0
	packages.Visit(pkgs, nil, func(p *packages.Package) {
		for _, e := range p.Errors {
			if strings.HasPrefix(p.PkgPath, repoModule) {
				fmt.Fprintf(os.Stderr, "load error: %s: %v\n", p.PkgPath, e)
				nerr++
			}
		}
	})
	if nerr > 0 {
		return nil, fmt.Errorf("%d load errors in repository packages", nerr)
	}
	prog, _ := ssautil.AllPackages(pkgs, ssa.NaiveForm|ssa.GlobalDebug)
	prog.Build()
	e := &Engine{repo: repo, prog: prog, pkgs: pkgs, spkgs: map[string]*ssa.Package{}, tpkgs: map[string]*types.Package{},
		typeIDs: map[string]int{}, typeByID: map[int]types.Type{}, funcIDs: map[*ssa.Function]int{}, globalIDs: map[*ssa.Global]int{},
		loopCache: map[*ssa.Function]*loopInfo{}, ordCache: map[*ssa.Function]map[ssa.Instruction]int{}, escCache: map[*ssa.Alloc]bool{},
		sizeCache: map[*ssa.Function]int{}, fnByKey: map[string]*ssa.Function{}}
	dirs := map[string]string{}
	packages.Visit(pkgs, nil, func(p *packages.Package) {
		e.tpkgs[p.PkgPath] = p.Types
		if sp := prog.Package(p.Types); sp != nil {
			e.spkgs[p.PkgPath] = sp
		}
		if strings.HasPrefix(p.PkgPath, repoModule) && len(p.GoFiles) > 0 {
			dirs[p.PkgPath] = filepath.Dir(p.GoFiles[0])
		}
	})
	cs, err := LoadContracts(repo, dirs)
	if err != nil {
		return nil, err
	}
	e.contracts = cs
	e.indexFunctions()
	gEng = e
	return e, nil
}

// funcKey: "name" for functions, "Recv.name" for methods, "parent$N" for closures.
func funcKey(fn *ssa.Function) string {
	if fn.Parent() != nil {
		return funcKey(fn.Parent()) + strings.TrimPrefix(fn.Name(), fn.Parent().Name())
	}
	if recv := fn.Signature.Recv(); recv != nil {
		t := recv.Type()
		if p, ok := t.(*types.Pointer); ok {
			t = p.Elem()
		}
		if n, ok := t.(*types.Named); ok {
			return n.Obj().Name() + "." + fn.Name()
		}
	}
	return fn.Name()
}

func (e *Engine) indexFunctions() {
	for fn := range ssautil.AllFunctions(e.prog) {
		p := pkgOf(fn)
		if p == nil {
			continue
		}
		if fn.Synthetic != "" && fn.Parent() == nil && !strings.Contains(fn.Synthetic, "package initializer") {
			continue
		}
		k := ckey(p.Path(), funcKey(fn))
		if old, ok := e.fnByKey[k]; ok && old.Pos() < fn.Pos() && old.Pos().IsValid() {
			continue
		}
		e.fnByKey[k] = fn
	}
	e.resolveAnchored()
	for k, fc := range e.contracts.Funcs {
		if _, ok := e.fnByKey[k]; ok {
			fc.Bound = true
		} else if !strings.Contains(fc.Key, ".") || !e.isInterfaceMethodKey(fc) {
			e.unbound = append(e.unbound, k)
		} else {
			fc.Bound = true
		}
	}
	sort.Strings(e.unbound)
}

func (e *Engine) isInterfaceMethodKey(fc *FuncContract) bool {
	tp := e.tpkgs[fc.Pkg]
	if tp == nil {
		return false
	}
	parts := strings.SplitN(fc.Key, ".", 2)
	obj := tp.Scope().Lookup(parts[0])
	if obj == nil {
		return false
	}
	_, ok := obj.Type().Underlying().(*types.Interface)
	return ok
}

// resolveAnchored binds contracts keyed "after:<file>:<anchor text>" to the
// first function literal that starts after the anchor text in that file, so
// that closures are addressed by what surrounds them and not by an ordinal.
func (e *Engine) resolveAnchored() {
	e.byFn = map[*ssa.Function]*FuncContract{}
	for k, fc := range e.contracts.Funcs {
		if !strings.HasPrefix(fc.Key, "after:") {
			continue
		}
		rest := strings.TrimPrefix(fc.Key, "after:")
		i := strings.Index(rest, ":")
		if i < 0 {
			continue
		}
		file, anchor := rest[:i], rest[i+1:]
		var anchorPos token.Pos
		for _, p := range e.pkgs {
			if p.PkgPath != fc.Pkg {
				continue
			}
			for j, f := range p.Syntax {
				name := p.CompiledGoFiles[j]
				if filepath.Base(name) != file {
					continue
				}
				data, err := os.ReadFile(name)
				if err != nil {
					continue
				}
				off := strings.Index(string(data), anchor)
				if off < 0 || strings.Index(string(data[off+1:]), anchor) >= 0 {
					continue // missing or ambiguous anchor: stays unbound
				}
				anchorPos = e.prog.Fset.File(f.Pos()).Pos(off)
			}
		}
		if !anchorPos.IsValid() {
			continue
		}
		var best *ssa.Function
		for _, fn := range e.fnByKey {
			if fn.Parent() == nil || !fn.Pos().IsValid() || pkgOf(fn) == nil || pkgOf(fn).Path() != fc.Pkg {
				continue
			}
			if e.prog.Fset.File(fn.Pos()) != e.prog.Fset.File(anchorPos) {
				continue
			}
			if fn.Pos() > anchorPos && (best == nil || fn.Pos() < best.Pos()) {
				best = fn
			}
		}
		if best != nil {
			e.fnByKey[k] = best
			e.byFn[best] = fc
		}
	}
}

func (e *Engine) contractOf(fn *ssa.Function) *FuncContract {
	if fc := e.byFn[fn]; fc != nil {
		return fc
	}
	p := pkgOf(fn)
	if p == nil {
		return nil
	}
	return e.contracts.Funcs[ckey(p.Path(), funcKey(fn))]
}

func (e *Engine) typesPkg(path string) *types.Package { return e.tpkgs[path] }

func (e *Engine) typeID(t types.Type) int {
	return e.typeIDByName(typeKey(t), t)
}

func (e *Engine) typeIDByName(name string, t ...types.Type) int {
	e.mu.Lock()
	defer e.mu.Unlock()
	if id, ok := e.typeIDs[name]; ok {
		if len(t) > 0 && e.typeByID[id] == nil {
			e.typeByID[id] = t[0]
		}
		return id
	}
	id := len(e.typeIDs) + 1
	e.typeIDs[name] = id
	if len(t) > 0 {
		e.typeByID[id] = t[0]
	}
	return id
}

func (e *Engine) funcID(f *ssa.Function) int {
	e.mu.Lock()
	defer e.mu.Unlock()
	if id, ok := e.funcIDs[f]; ok {
		return id
	}
	e.funcIDs[f] = len(e.funcIDs) + 1
	return e.funcIDs[f]
}

func (e *Engine) globalID(g *ssa.Global) int {
	e.mu.Lock()
	defer e.mu.Unlock()
	if id, ok := e.globalIDs[g]; ok {
		return id
	}
	e.globalIDs[g] = len(e.globalIDs) + 1
	return e.globalIDs[g]
}

// lookupQualified resolves pkg.Name in a contract to a constant.
func (e *Engine) lookupQualified(from *types.Package, pkgName, name string) (Val, bool) {
	if from != nil {
		for _, imp := range from.Imports() {
			if imp.Name() == pkgName {
				if obj := imp.Scope().Lookup(name); obj != nil {
					if c, ok := obj.(*types.Const); ok {
						return constVal(c.Val(), c.Type()), true
					}
				}
			}
		}
	}
	for _, tp := range e.tpkgs {
		if tp.Name() == pkgName && strings.HasPrefix(tp.Path(), repoModule) {
			if obj := tp.Scope().Lookup(name); obj != nil {
				if c, ok := obj.(*types.Const); ok {
					return constVal(c.Val(), c.Type()), true
				}
			}
		}
	}
	return nil, false
}

// implementsPred: disjunction over known type ids that implement iface.
func (e *Engine) implementsPred(x *Exec, tag string, iface types.Type) string {
	it, ok := iface.Underlying().(*types.Interface)
	if !ok {
		return "false"
	}
	// closed world: the dynamic type is one of the named types (or pointers to them) of the loaded
	// program; the assertion succeeds iff that type implements the interface
	ids := e.implementers(typeKey(iface), it)
	if len(ids) == 0 {
		return "false"
	}
	var alts []string
	for _, id := range ids {
		alts = append(alts, "(= "+tag+" "+strconv.Itoa(id)+")")
	}
	if len(alts) == 1 {
		return alts[0]
	}
	return "(or " + strings.Join(alts, " ") + ")"
}

func (e *Engine) implementers(key string, it *types.Interface) []int {
	e.mu.Lock()
	if e.implCache == nil {
		e.implCache = map[string][]int{}
	}
	if ids, ok := e.implCache[key]; ok {
		e.mu.Unlock()
		return ids
	}
	e.mu.Unlock()
	var ids []int
	for _, tp := range e.tpkgs {
		sc := tp.Scope()
		for _, n := range sc.Names() {
			tn, ok := sc.Lookup(n).(*types.TypeName)
			if !ok || tn.IsAlias() {
				continue
			}
			T := tn.Type()
			if _, isIface := T.Underlying().(*types.Interface); isIface {
				continue
			}
			if named, ok := T.(*types.Named); ok && named.TypeParams().Len() > 0 {
				continue
			}
			if types.Implements(T, it) {
				ids = append(ids, e.typeID(T))
			}
			if pt := types.NewPointer(T); types.Implements(pt, it) {
				ids = append(ids, e.typeID(pt))
			}
		}
	}
	sort.Ints(ids)
	e.mu.Lock()
	e.implCache[key] = ids
	e.mu.Unlock()
	return ids
}

var pureMethodNames = map[string]bool{
	"Name": true, "String": true, "Error": true, "GetKind": true, "GetLoc": true, "Description": true, "GetName": true,
	"GetValue": true, "GetOperation": true, "GetVariableDefinitions": true, "GetSelectionSet": true, "GetDirectives": true,
	"GetTypeCondition": true, "GetDescription": true, "GetError": true,
}

func (e *Engine) pureMethod(m *types.Func) bool { return pureMethodNames[m.Name()] }

func (e *Engine) fnSize(fn *ssa.Function) int {
	e.mu.Lock()
	defer e.mu.Unlock()
	if n, ok := e.sizeCache[fn]; ok {
		return n
	}
	n := 0
	for _, b := range fn.Blocks {
		n += len(b.Instrs)
	}
	e.sizeCache[fn] = n
	return n
}

// escapes: does the address of a heap-flagged alloc flow somewhere the cell
// model cannot follow (stored, returned, boxed, captured as a value)?
func (e *Engine) escapes(a *ssa.Alloc) bool {
	e.mu.Lock()
	defer e.mu.Unlock()
	if v, ok := e.escCache[a]; ok {
		return v
	}
	esc := false
	var visit func(v ssa.Value, depth int)
	visit = func(v ssa.Value, depth int) {
		if depth > 3 || v.Referrers() == nil {
			return
		}
		for _, r := range *v.Referrers() {
			switch in := r.(type) {
			case *ssa.Store:
				if in.Val == v {
					esc = true
				}
			case *ssa.Return, *ssa.MakeInterface, *ssa.MapUpdate, *ssa.Send, *ssa.Phi, *ssa.ChangeType, *ssa.Convert:
				esc = true
			case *ssa.FieldAddr:
				visit(in, depth+1)
			case *ssa.IndexAddr:
				visit(in, depth+1)
			case *ssa.MakeClosure:
				// captured by reference: stays a cell (closure bodies see the cell)
			case *ssa.Call, *ssa.Defer, *ssa.Go:
				// passed as argument: cell pointer is handed to callee (inlined or havocked)
			}
		}
	}
	visit(a, 0)
	e.escCache[a] = esc
	return esc
}

// safetyOrdinal: ordinal of instruction `in` among instructions of fn of the
// same "kind class" in block/instruction order (stable under edits elsewhere).
func (e *Engine) safetyOrdinal(fn *ssa.Function, in ssa.Instruction, kind string) int {
	e.mu.Lock()
	defer e.mu.Unlock()
	m := e.ordCache[fn]
	if m == nil {
		m = map[ssa.Instruction]int{}
		// order instructions by source position, then by block order
		type item struct {
			in  ssa.Instruction
			pos token.Pos
			seq int
		}
		var items []item
		seq := 0
		for _, b := range fn.Blocks {
			for _, i := range b.Instrs {
				items = append(items, item{i, i.Pos(), seq})
				seq++
			}
		}
		sort.SliceStable(items, func(a, b int) bool {
			if items[a].pos != items[b].pos {
				return items[a].pos < items[b].pos
			}
			return items[a].seq < items[b].seq
		})
		counts := map[string]int{}
		for _, it := range items {
			kc := fmt.Sprintf("%T", it.in)
			counts[kc]++
			m[it.in] = counts[kc]
		}
		e.ordCache[fn] = m
	}
	return m[in]
}

// ---------- loops ----------

type loop struct {
	head        *ssa.BasicBlock
	blocks      map[*ssa.BasicBlock]bool
	ordinal     int
	pos         token.Pos
	endPos      token.Pos // end of the loop body (scope position for per-iteration postconditions)
	modAllocs   []*ssa.Alloc
	writesHeap  bool     // may write anything (call with unknown effects)
	heapClasses []string // heap class prefixes written directly
	outerCells  []*Cell
}

type loopInfo struct {
	byHead map[*ssa.BasicBlock]*loop
	list   []*loop
}

func (e *Engine) loopsOf(fn *ssa.Function) *loopInfo {
	e.mu.Lock()
	if li, ok := e.loopCache[fn]; ok {
		e.mu.Unlock()
		return li
	}
	e.mu.Unlock()
	li := &loopInfo{byHead: map[*ssa.BasicBlock]*loop{}}
	// natural loops from back edges (b -> h with h dominating b)
	for _, b := range fn.Blocks {
		for _, s := range b.Succs {
			if s.Dominates(b) {
				lp := li.byHead[s]
				if lp == nil {
					lp = &loop{head: s, blocks: map[*ssa.BasicBlock]bool{s: true}}
					li.byHead[s] = lp
					li.list = append(li.list, lp)
				}
				// add all blocks that reach b without passing through s
				stack := []*ssa.BasicBlock{b}
				for len(stack) > 0 {
					n := stack[len(stack)-1]
					stack = stack[:len(stack)-1]
					if lp.blocks[n] {
						continue
					}
					lp.blocks[n] = true
					stack = append(stack, n.Preds...)
				}
			}
		}
	}
	// source loops in order
	var srcLoops []ast.Node
	if syn := fn.Syntax(); syn != nil {
		var body ast.Node
		switch s := syn.(type) {
		case *ast.FuncDecl:
			body = s.Body
		case *ast.FuncLit:
			body = s.Body
		}
		if body != nil {
			ast.Inspect(body, func(n ast.Node) bool {
				switch n.(type) {
				case *ast.FuncLit:
					if n != syn {
						return false
					}
				case *ast.ForStmt, *ast.RangeStmt:
					srcLoops = append(srcLoops, n)
				}
				return true
			})
		}
	}
	sort.Slice(srcLoops, func(i, j int) bool { return srcLoops[i].Pos() < srcLoops[j].Pos() })
	for _, lp := range li.list {
		// innermost source loop containing all positioned instructions of the natural loop
		best := -1
		for i, sl := range srcLoops {
			ok := true
			any := false
			for b := range lp.blocks {
				for _, in := range b.Instrs {
					if p := in.Pos(); p.IsValid() {
						any = true
						if p < sl.Pos() || p >= sl.End() {
							ok = false
						}
					}
				}
			}
			if ok && any {
				if best < 0 || (srcLoops[best].Pos() <= sl.Pos() && sl.End() <= srcLoops[best].End()) {
					best = i
				}
			}
		}
		if best >= 0 {
			lp.ordinal = best + 1
			lp.pos = srcLoops[best].Pos()
			// scope position for name lookup: inside the body
			switch s := srcLoops[best].(type) {
			case *ast.ForStmt:
				lp.pos = s.Body.Lbrace + 1
				lp.endPos = s.Body.Rbrace
			case *ast.RangeStmt:
				lp.pos = s.Body.Lbrace + 1
				lp.endPos = s.Body.Rbrace
			}
		}
		// modified cells and heap writes
		seen := map[*ssa.Alloc]bool{}
		for b := range lp.blocks {
			for _, in := range b.Instrs {
				switch i := in.(type) {
				case *ssa.Store:
					if a := rootAlloc(i.Addr); a != nil {
						if !seen[a] {
							seen[a] = true
							lp.modAllocs = append(lp.modAllocs, a)
						}
					} else if c := storeClass(i.Addr); c != "" {
						lp.heapClasses = append(lp.heapClasses, c)
					} else {
						lp.writesHeap = true
					}
				case *ssa.MapUpdate:
					if mt, ok := i.Map.Type().Underlying().(*types.Map); ok {
						lp.heapClasses = append(lp.heapClasses, "M|"+typeKey(mt.Key())+"|"+typeKey(mt.Elem()))
					} else {
						lp.writesHeap = true
					}
				case *ssa.Send, *ssa.Go:
					lp.writesHeap = true
				case ssa.CallInstruction:
					cc := i.Common()
					argsMayBeWritten := true
					if f := cc.StaticCallee(); f != nil {
						if fc := e.contractOf(f); fc != nil && (fc.Pure || frameIsClassOnly(fc)) {
							argsMayBeWritten = false
						}
					}
					if argsMayBeWritten {
						for _, a := range cc.Args {
							if ra := rootAlloc(a); ra != nil && !seen[ra] {
								seen[ra] = true
								lp.modAllocs = append(lp.modAllocs, ra)
							}
						}
					}
					if b, isB := cc.Value.(*ssa.Builtin); isB && (b.Name() == "append" || b.Name() == "copy") && len(cc.Args) > 0 {
						if st, ok := cc.Args[0].Type().Underlying().(*types.Slice); ok {
							lp.heapClasses = append(lp.heapClasses, "E|"+typeKey(st.Elem()))
						} else {
							lp.writesHeap = true
						}
					} else if !e.callIsHeapPure(cc, 0) {
						if cls, ok := e.calleeClasses(cc); ok {
							lp.heapClasses = append(lp.heapClasses, cls...)
						} else {
							lp.writesHeap = true
						}
					}
					// closures called in the loop may write captured cells
					if mc, ok := cc.Value.(*ssa.MakeClosure); ok {
						for _, bnd := range mc.Bindings {
							if ra := rootAlloc(bnd); ra != nil && !seen[ra] {
								seen[ra] = true
								lp.modAllocs = append(lp.modAllocs, ra)
							}
						}
					}
				}
			}
		}
		sort.Slice(lp.modAllocs, func(i, j int) bool { return lp.modAllocs[i].Pos() < lp.modAllocs[j].Pos() })
	}
	e.mu.Lock()
	e.loopCache[fn] = li
	e.mu.Unlock()
	return li
}

// storeClass: heap class prefix written by a store through addr ("" = unknown).
func storeClass(addr ssa.Value) string {
	switch a := addr.(type) {
	case *ssa.FieldAddr:
		pt, ok := a.X.Type().Underlying().(*types.Pointer)
		if !ok {
			return ""
		}
		st, ok := pt.Elem().Underlying().(*types.Struct)
		if !ok {
			return ""
		}
		// nested field of a field address: prefix by the outermost struct is hard to know; use the direct one
		if _, nested := a.X.(*ssa.FieldAddr); nested {
			return ""
		}
		return "F|" + typeKey(pt.Elem()) + "." + st.Field(a.Field).Name()
	case *ssa.IndexAddr:
		switch t := a.X.Type().Underlying().(type) {
		case *types.Slice:
			return "E|" + typeKey(t.Elem())
		case *types.Pointer:
			if at, ok := t.Elem().Underlying().(*types.Array); ok {
				return "E|" + typeKey(at.Elem())
			}
		}
	}
	return ""
}

func rootAlloc(v ssa.Value) *ssa.Alloc {
	for i := 0; i < 8; i++ {
		switch a := v.(type) {
		case *ssa.Alloc:
			return a
		case *ssa.FieldAddr:
			v = a.X
		case *ssa.IndexAddr:
			v = a.X
		default:
			return nil
		}
	}
	return nil
}

// calleeClasses: heap class patterns a contracted callee may write (assigns class:...).
func (e *Engine) calleeClasses(cc *ssa.CallCommon) ([]string, bool) {
	f := cc.StaticCallee()
	if f == nil {
		return nil, false
	}
	fc := e.contractOf(f)
	if fc == nil || !fc.HasAssign {
		return nil, false
	}
	var out []string
	for _, a := range fc.Assigns {
		switch {
		case a == "nothing" || a == "fresh":
		case strings.HasPrefix(a, "class:"):
			out = append(out, "~"+strings.TrimPrefix(a, "class:"))
		default:
			return nil, false
		}
	}
	return out, true
}

// callIsHeapPure: conservative static answer to "can this call write the heap?"
func (e *Engine) callIsHeapPure(cc *ssa.CallCommon, depth int) bool {
	if cc.IsInvoke() {
		return pureMethodNames[cc.Method.Name()]
	}
	switch f := cc.Value.(type) {
	case *ssa.Builtin:
		switch f.Name() {
		case "append", "copy", "delete":
			return false
		}
		return true
	case *ssa.Function:
		return e.fnIsHeapPure(f, depth)
	case *ssa.MakeClosure:
		return e.fnIsHeapPure(f.Fn.(*ssa.Function), depth)
	}
	return false
}

func (e *Engine) fnIsHeapPure(f *ssa.Function, depth int) bool {
	if fc := e.contractOf(f); fc != nil {
		if fc.Pure || (fc.HasAssign && len(fc.Assigns) == 1 && fc.Assigns[0] == "nothing") {
			return true
		}
		if fc.HasAssign {
			return false
		}
	}
	if isPureExternal(f) {
		if recv := f.Signature.Recv(); recv != nil {
			if _, isPtr := recv.Type().(*types.Pointer); isPtr && !readOnlyMethod(f.Name()) {
				return true // receiver cell havoc handled separately via args
			}
		}
		return true
	}
	switch f.String() {
	case "errors.New", "fmt.Errorf":
		return true
	}
	p := pkgOf(f)
	if p == nil || !strings.HasPrefix(p.Path(), repoModule) || depth > 3 || len(f.Blocks) == 0 {
		return false
	}
	for _, b := range f.Blocks {
		for _, in := range b.Instrs {
			switch i := in.(type) {
			case *ssa.Store:
				if rootAlloc(i.Addr) == nil {
					// store into a freshly allocated local object is still a heap write in our model
					return false
				}
			case *ssa.MapUpdate, *ssa.Send, *ssa.Go:
				return false
			case ssa.CallInstruction:
				if !e.callIsHeapPure(i.Common(), depth+1) {
					return false
				}
			}
		}
	}
	return true
}

func atoi(s string) int { n, _ := strconv.Atoi(s); return n }

// typeByName resolves "pkg.T" / "*pkg.T" / basic type names to a types.Type.
func (e *Engine) typeByName(name string) types.Type {
	if strings.ContainsAny(name, "[]({ ") {
		// composite type expression over predeclared types: "map[string]interface{}", "func() interface{}", "[]interface{}"
		for _, tp := range e.tpkgs {
			if tv, err := types.Eval(e.prog.Fset, tp, token.NoPos, name); err == nil && tv.IsType() {
				e.typeID(tv.Type)
				return tv.Type
			}
		}
		return nil
	}
	ptr := strings.HasPrefix(name, "*")
	base := strings.TrimPrefix(name, "*")
	var t types.Type
	if i := strings.Index(base, "."); i >= 0 {
		pn, tn := base[:i], base[i+1:]
		for _, tp := range e.tpkgs {
			if tp.Name() == pn {
				if obj := tp.Scope().Lookup(tn); obj != nil {
					if _, ok := obj.(*types.TypeName); ok {
						t = obj.Type()
						if strings.HasPrefix(tp.Path(), repoModule) {
							break
						}
					}
				}
			}
		}
	} else {
		for _, b := range types.Typ {
			if b.Name() == base {
				t = b
			}
		}
	}
	if t == nil {
		return nil
	}
	if ptr {
		t = types.NewPointer(t)
	}
	e.typeID(t)
	return t
}

// ifaceAllIdentity: is every type of the loaded program that implements the
// interface type t represented with an identity payload (pointer, integer,
// bool, map, func, chan)?
func (e *Engine) ifaceAllIdentity(t types.Type) bool {
	it, ok := t.Underlying().(*types.Interface)
	if !ok || it.NumMethods() == 0 {
		return false
	}
	key := typeKey(t)
	e.mu.Lock()
	if e.idCache == nil {
		e.idCache = map[string]bool{}
	}
	if v, ok := e.idCache[key]; ok {
		e.mu.Unlock()
		return v
	}
	e.mu.Unlock()
	all := true
	identity := func(ct types.Type) bool {
		switch u := ct.Underlying().(type) {
		case *types.Pointer, *types.Map, *types.Signature, *types.Chan:
			return true
		case *types.Basic:
			return u.Info()&(types.IsInteger|types.IsBoolean) != 0
		}
		return false
	}
	for _, tp := range e.tpkgs {
		for _, name := range tp.Scope().Names() {
			tn, ok := tp.Scope().Lookup(name).(*types.TypeName)
			if !ok || tn.IsAlias() {
				continue
			}
			nt := tn.Type()
			if _, isIface := nt.Underlying().(*types.Interface); isIface {
				continue
			}
			if types.Implements(nt, it) && !identity(nt) {
				all = false
			}
			// pointer receiver implementations are identity-boxed by construction
		}
	}
	e.mu.Lock()
	e.idCache[key] = all
	e.mu.Unlock()
	return all
}

// allocFor finds the Alloc of a local variable object in fn (nil if none).
func allocFor(fn *ssa.Function, obj types.Object) *ssa.Alloc {
	for _, b := range fn.Blocks {
		for _, in := range b.Instrs {
			if a, ok := in.(*ssa.Alloc); ok && a.Comment == obj.Name() && a.Pos() == obj.Pos() {
				return a
			}
		}
	}
	return nil
}

// calleeOrdinal: 1-based position of call instruction `in` among the call
// sites of fn (in source order) whose source-level callee name is `name`.
var calleeOrdCache sync.Map // ssa.Instruction -> int

func (e *Engine) calleeOrdinal(fn *ssa.Function, in ssa.Instruction, name string) int {
	if v, ok := calleeOrdCache.Load(in); ok {
		return v.(int)
	}
	r := e.calleeOrdinal0(fn, in, name)
	calleeOrdCache.Store(in, r)
	return r
}

func (e *Engine) calleeOrdinal0(fn *ssa.Function, in ssa.Instruction, name string) int {
	type item struct {
		in  ssa.Instruction
		pos token.Pos
		seq int
	}
	var items []item
	seq := 0
	for _, b := range fn.Blocks {
		for _, i := range b.Instrs {
			if ci, ok := i.(ssa.CallInstruction); ok && calleeName(ci.Common()) == name {
				items = append(items, item{i, i.Pos(), seq})
			}
			seq++
		}
	}
	sort.SliceStable(items, func(a, b int) bool {
		if items[a].pos != items[b].pos {
			return items[a].pos < items[b].pos
		}
		return items[a].seq < items[b].seq
	})
	for i, it := range items {
		if it.in == in {
			return i + 1
		}
	}
	return 0
}

// tinyLeaf: at most 14 instructions, a single block chain without loops, no calls.
func (e *Engine) tinyLeaf(fn *ssa.Function) bool {
	n := 0
	for _, b := range fn.Blocks {
		for _, in := range b.Instrs {
			n++
			switch c := in.(type) {
			case *ssa.Call:
				if bi, ok := c.Call.Value.(*ssa.Builtin); !ok || bi.Name() != "ssa:deferstack" {
					return false
				}
			case *ssa.Go, *ssa.Defer, *ssa.Send, *ssa.Select, *ssa.MapUpdate:
				return false
			case *ssa.Store:
				if rootAlloc(c.Addr) == nil {
					return false
				}
			}
		}
		for _, s := range b.Succs {
			if s.Dominates(b) {
				return false
			}
		}
	}
	return n <= 24
}

// frameIsClassOnly: the contract's frame names only heap classes (or nothing):
// locals passed by pointer are then not written by the callee.
func frameIsClassOnly(fc *FuncContract) bool {
	if !fc.HasAssign {
		return false
	}
	for _, a := range fc.Assigns {
		if a == "nothing" || a == "fresh" || strings.HasPrefix(a, "class:") {
			continue
		}
		return false
	}
	return true
}

// orderFreeViolation: for every natural loop of fn that iterates over a map,
// every local slice that is appended to inside the loop must be sorted
// (sort.Strings / sort.Ints / sort.Float64s / sort.Sort / sort.Stable /
// sort.Slice) somewhere in the function. Returns "" or a description.
func (e *Engine) orderFreeViolation(fn *ssa.Function) string {
	li := e.loopsOf(fn)
	sorted := map[*ssa.Alloc]bool{}
	sortedFields := map[string]bool{}    // "StructType.fieldIndex" passed to sort.* somewhere in fn
	sortedMapValues := map[string]bool{} // map types all of whose values fn sorts (range over the map, sort the value)
	for _, b := range fn.Blocks {
		for _, in := range b.Instrs {
			c, ok := in.(*ssa.Call)
			if !ok {
				continue
			}
			cal := c.Call.StaticCallee()
			if cal == nil || pkgOf(cal) == nil || pkgOf(cal).Path() != "sort" || len(c.Call.Args) == 0 {
				continue
			}
			v := c.Call.Args[0]
			for i := 0; i < 4; i++ {
				switch y := v.(type) {
				case *ssa.MakeInterface:
					v = y.X
					continue
				case *ssa.ChangeType:
					v = y.X
					continue
				case *ssa.Convert:
					v = y.X
					continue
				}
				break
			}
			if ld, ok := v.(*ssa.UnOp); ok {
				switch a := ld.X.(type) {
				case *ssa.Alloc:
					sorted[a] = true
					// the sorted value may be the element variable of a range over a map: then every
					// value stored in a map of that type is sorted by this function
					if a.Referrers() != nil {
						for _, r := range *a.Referrers() {
							st, ok := r.(*ssa.Store)
							if !ok || st.Addr != a {
								continue
							}
							if ex, ok := st.Val.(*ssa.Extract); ok {
								if nx, ok := ex.Tuple.(*ssa.Next); ok {
									if rg, ok := nx.Iter.(*ssa.Range); ok {
										if _, isMap := rg.X.Type().Underlying().(*types.Map); isMap {
											sortedMapValues[typeKey(rg.X.Type())] = true
										}
									}
								}
							}
						}
					}
				case *ssa.FieldAddr:
					sortedFields[fieldAddrKey(a)] = true
				}
			}
		}
	}
	for _, lp := range li.list {
		overMap := false
		for _, in := range lp.head.Instrs {
			if nx, ok := in.(*ssa.Next); ok && !nx.IsString {
				overMap = true
			}
		}
		if !overMap {
			continue
		}
		for b := range lp.blocks {
			for _, in := range b.Instrs {
				st, ok := in.(*ssa.Store)
				if !ok {
					continue
				}
				c, ok := st.Val.(*ssa.Call)
				if !ok {
					continue
				}
				if bi, ok := c.Call.Value.(*ssa.Builtin); !ok || bi.Name() != "append" {
					continue
				}
				a, ok := st.Addr.(*ssa.Alloc)
				if !ok {
					if fa, isField := st.Addr.(*ssa.FieldAddr); isField && sortedFields[fieldAddrKey(fa)] {
						continue // the same field is passed to sort.* by this function
					}
					return fmt.Sprintf("loop %d ranges over a map and appends to a non-local slice at %s", lp.ordinal, posStr(e.prog.Fset, st.Pos()))
				}
				if !sorted[a] && a.Referrers() != nil {
					// stored into a map all of whose values this function sorts?
					for _, r := range *a.Referrers() {
						if ld, ok := r.(*ssa.UnOp); ok && ld.Referrers() != nil {
							for _, r2 := range *ld.Referrers() {
								if mu, ok := r2.(*ssa.MapUpdate); ok && mu.Value == ld && sortedMapValues[typeKey(mu.Map.Type())] {
									sorted[a] = true
								}
							}
						}
					}
				}
				if !sorted[a] {
					return fmt.Sprintf("loop %d ranges over a map and appends to %s (%s), which is never sorted", lp.ordinal, a.Comment, posStr(e.prog.Fset, st.Pos()))
				}
			}
		}
	}
	return ""
}

// fieldsRead: the set "pkgname.Type.Field" of struct fields loaded (FieldAddr /
// Field) by fn or by functions of the same package statically reachable from it.
func (e *Engine) fieldsRead(fn *ssa.Function) map[string]bool {
	out := map[string]bool{}
	seen := map[*ssa.Function]bool{}
	var walk func(f *ssa.Function)
	walk = func(f *ssa.Function) {
		if f == nil || seen[f] || len(f.Blocks) == 0 {
			return
		}
		seen[f] = true
		record := func(t types.Type, idx int) {
			if p, ok := t.Underlying().(*types.Pointer); ok {
				t = p.Elem()
			}
			st, ok := t.Underlying().(*types.Struct)
			if !ok || idx >= st.NumFields() {
				return
			}
			out[typeKey(t)+"."+st.Field(idx).Name()] = true
		}
		for _, b := range f.Blocks {
			for _, in := range b.Instrs {
				switch i := in.(type) {
				case *ssa.FieldAddr:
					// only loads count: the address must be dereferenced by a load
					if i.Referrers() != nil {
						for _, r := range *i.Referrers() {
							if u, ok := r.(*ssa.UnOp); ok && u.Op == token.MUL {
								record(i.X.Type(), i.Field)
							}
						}
					}
				case *ssa.Field:
					record(i.X.Type(), i.Field)
				case ssa.CallInstruction:
					if cal := i.Common().StaticCallee(); cal != nil && pkgOf(cal) != nil && pkgOf(fn) != nil && pkgOf(cal).Path() == pkgOf(fn).Path() {
						walk(cal)
					}
				case *ssa.MakeClosure:
					walk(i.Fn.(*ssa.Function))
				}
			}
		}
	}
	walk(fn)
	return out
}

func fieldAddrKey(fa *ssa.FieldAddr) string {
	t := fa.X.Type()
	if p, ok := t.Underlying().(*types.Pointer); ok {
		t = p.Elem()
	}
	return typeKey(t) + "." + strconv.Itoa(fa.Field)
}
