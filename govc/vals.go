package main

// Symbolic values. Structure (pointers, structs, slices, tuples) is kept on the
// Go side; leaves are SMT terms (strings). All integer types and object
// references are SMT Int (mathematical; ranges assumed for inputs, wrap-around
// only modelled for explicit narrowing conversions).

import (
	"fmt"
	"go/types"
	"math"
	"strconv"
	"strings"
	"sync/atomic"

	"golang.org/x/tools/go/ssa"
)

type Val interface{ isVal() }

type Int struct{ T string }
type Bool struct{ T string }
type Flt struct {
	T    string
	Bits int
}

// Str is an immutable byte sequence: element i is (select Base (+ Off i)).
type Str struct{ Base, Off, Len string }

// Slice: Arr is the identity (Int) of the backing array; contents live in the
// heap class "E|<elem>". nil slice has Arr=0, Len=0, Cap=0.
type Slice struct {
	Arr, Off, Len, Cap string
	Elem               types.Type
}

// Ptr: either a pointer to a local cell (Cell != nil) with a field path, or a
// heap pointer (Ref = Int term, 0 = nil) to an object of type Elem with a
// field path inside it, or a pointer to a slice/array element (Arr != "").
type Ptr struct {
	Cell *Cell
	Ref  string
	Path []int
	Arr  string     // element pointer: backing array id
	Idx  string     // element pointer: absolute index
	Elem types.Type // type of the object Ref points to (for Ref) / element type (for Arr)
}

type Struct struct {
	Typ types.Type // named or struct type
	F   []Val
}

// Iface: Tag = type id (0 = nil interface), Pay = payload (Int).
type Iface struct{ Tag, Pay string }

type Tuple struct{ E []Val }

// Func: Fn is set when statically known (function or closure with bindings).
type Func struct {
	Fn    *ssa.Function
	Binds []Val
	T     string // Int term identity (0 = nil)
}

type MapV struct {
	Ref      string
	Key, Elt types.Type
}

// Opaque: value of an unmodelled type; T is an Int-sorted identity.
type Opaque struct {
	Typ types.Type
	T   string
}

func (Int) isVal()    {}
func (Bool) isVal()   {}
func (Flt) isVal()    {}
func (Str) isVal()    {}
func (Slice) isVal()  {}
func (Ptr) isVal()    {}
func (Struct) isVal() {}
func (Iface) isVal()  {}
func (Tuple) isVal()  {}
func (Func) isVal()   {}
func (MapV) isVal()   {}
func (Opaque) isVal() {}

// Cell is a local variable (ssa.Alloc); its content is in State.cells.
type Cell struct {
	Alloc *ssa.Alloc
	Frame int // frame serial, distinguishes recursive/inlined instances
	Name  string
}

// comp describes one SMT component of a flattened value.
type comp struct {
	Suffix string
	Sort   string
}

func isIntegerBasic(b *types.Basic) bool { return b.Info()&types.IsInteger != 0 }

// typeKey returns a stable printable name for a type (used in heap class names).
func typeKey(t types.Type) string {
	return types.TypeString(t, func(p *types.Package) string { return p.Name() })
}

// comps flattens a type into SMT components.
func comps(t types.Type) []comp {
	switch u := t.Underlying().(type) {
	case *types.Basic:
		switch {
		case u.Info()&types.IsBoolean != 0:
			return []comp{{"", "Bool"}}
		case u.Info()&types.IsInteger != 0:
			return []comp{{"", "Int"}}
		case u.Info()&types.IsFloat != 0:
			if u.Kind() == types.Float32 {
				return []comp{{"", "Float32"}}
			}
			return []comp{{"", "Float64"}}
		case u.Info()&types.IsString != 0:
			return []comp{{".base", "(Array Int Int)"}, {".off", "Int"}, {".len", "Int"}}
		case u.Kind() == types.UnsafePointer, u.Kind() == types.UntypedNil:
			return []comp{{"", "Int"}}
		}
		return []comp{{"", "Int"}}
	case *types.Pointer, *types.Map, *types.Chan, *types.Signature:
		return []comp{{"", "Int"}}
	case *types.Slice:
		return []comp{{".arr", "Int"}, {".off", "Int"}, {".len", "Int"}, {".cap", "Int"}}
	case *types.Interface:
		return []comp{{".tag", "Int"}, {".pay", "Int"}}
	case *types.Struct:
		var cs []comp
		for i := 0; i < u.NumFields(); i++ {
			for _, c := range comps(u.Field(i).Type()) {
				cs = append(cs, comp{"." + u.Field(i).Name() + c.Suffix, c.Sort})
			}
		}
		if len(cs) == 0 {
			return nil
		}
		return cs
	case *types.Tuple:
		var cs []comp
		for i := 0; i < u.Len(); i++ {
			for _, c := range comps(u.At(i).Type()) {
				cs = append(cs, comp{fmt.Sprintf(".%d%s", i, c.Suffix), c.Sort})
			}
		}
		return cs
	case *types.Array:
		return []comp{{"", "Int"}} // arrays by value: opaque identity
	}
	return []comp{{"", "Int"}}
}

// flatten returns the SMT terms of v in the order of comps(t).
func flatten(v Val) []string {
	switch x := v.(type) {
	case Int:
		return []string{x.T}
	case Bool:
		return []string{x.T}
	case Flt:
		return []string{x.T}
	case Str:
		return []string{x.Base, x.Off, x.Len}
	case Slice:
		return []string{x.Arr, x.Off, x.Len, x.Cap}
	case Ptr:
		return []string{ptrTerm(x)}
	case Struct:
		var ts []string
		for _, f := range x.F {
			ts = append(ts, flatten(f)...)
		}
		return ts
	case Iface:
		return []string{x.Tag, x.Pay}
	case Tuple:
		var ts []string
		for _, f := range x.E {
			ts = append(ts, flatten(f)...)
		}
		return ts
	case Func:
		return []string{x.T}
	case MapV:
		return []string{x.Ref}
	case Opaque:
		return []string{x.T}
	}
	panic(fmt.Sprintf("flatten: %T", v))
}

// ptrTerm gives the Int identity of a pointer. Only whole-object heap
// pointers have a faithful identity; others get an uninterpreted encoding.
func ptrTerm(p Ptr) string {
	if p.Cell != nil {
		return fmt.Sprintf("(cellptr %d %d)", cellID(p.Cell), pathCode(p.Path))
	}
	if p.Arr != "" {
		return "(elemptr " + p.Arr + " " + p.Idx + ")"
	}
	if len(p.Path) == 0 {
		return p.Ref
	}
	return fmt.Sprintf("(fieldptr %s %d)", p.Ref, pathCode(p.Path))
}

var cellIDs = map[*Cell]int{}

func cellID(c *Cell) int {
	if id, ok := cellIDs[c]; ok {
		return id
	}
	cellIDs[c] = len(cellIDs) + 1
	return cellIDs[c]
}

func pathCode(p []int) int {
	n := 0
	for _, i := range p {
		n = n*64 + i + 1
	}
	return n
}

// unflatten rebuilds a Val of type t from component terms; returns remaining.
func unflatten(t types.Type, ts []string) (Val, []string) {
	switch u := t.Underlying().(type) {
	case *types.Basic:
		switch {
		case u.Info()&types.IsBoolean != 0:
			return Bool{ts[0]}, ts[1:]
		case u.Info()&types.IsFloat != 0:
			bits := 64
			if u.Kind() == types.Float32 {
				bits = 32
			}
			return Flt{ts[0], bits}, ts[1:]
		case u.Info()&types.IsString != 0:
			return Str{ts[0], ts[1], ts[2]}, ts[3:]
		}
		return Int{ts[0]}, ts[1:]
	case *types.Pointer:
		return Ptr{Ref: ts[0], Elem: u.Elem()}, ts[1:]
	case *types.Map:
		return MapV{Ref: ts[0], Key: u.Key(), Elt: u.Elem()}, ts[1:]
	case *types.Signature:
		return Func{T: ts[0]}, ts[1:]
	case *types.Slice:
		return Slice{ts[0], ts[1], ts[2], ts[3], u.Elem()}, ts[4:]
	case *types.Interface:
		return Iface{ts[0], ts[1]}, ts[2:]
	case *types.Struct:
		s := Struct{Typ: t}
		for i := 0; i < u.NumFields(); i++ {
			var f Val
			f, ts = unflatten(u.Field(i).Type(), ts)
			s.F = append(s.F, f)
		}
		return s, ts
	case *types.Tuple:
		tp := Tuple{}
		for i := 0; i < u.Len(); i++ {
			var f Val
			f, ts = unflatten(u.At(i).Type(), ts)
			tp.E = append(tp.E, f)
		}
		return tp, ts
	}
	return Opaque{Typ: t, T: ts[0]}, ts[1:]
}

// zeroVal is the Go zero value of t.
func zeroVal(t types.Type) Val {
	switch u := t.Underlying().(type) {
	case *types.Basic:
		switch {
		case u.Info()&types.IsBoolean != 0:
			return Bool{"false"}
		case u.Info()&types.IsFloat != 0:
			if u.Kind() == types.Float32 {
				return Flt{"((_ to_fp 8 24) RNE 0.0)", 32}
			}
			return Flt{"((_ to_fp 11 53) RNE 0.0)", 64}
		case u.Info()&types.IsString != 0:
			return Str{"emptybase", "0", "0"}
		}
		return Int{"0"}
	case *types.Pointer:
		return Ptr{Ref: "0", Elem: u.Elem()}
	case *types.Map:
		return MapV{Ref: "0", Key: u.Key(), Elt: u.Elem()}
	case *types.Signature:
		return Func{T: "0"}
	case *types.Slice:
		return Slice{"0", "0", "0", "0", u.Elem()}
	case *types.Interface:
		return Iface{"0", "0"}
	case *types.Struct:
		s := Struct{Typ: t}
		for i := 0; i < u.NumFields(); i++ {
			s.F = append(s.F, zeroVal(u.Field(i).Type()))
		}
		return s
	case *types.Tuple:
		tp := Tuple{}
		for i := 0; i < u.Len(); i++ {
			tp.E = append(tp.E, zeroVal(u.At(i).Type()))
		}
		return tp
	}
	return Opaque{Typ: t, T: "0"}
}

// intRange returns the (lo,hi) bounds of an integer basic type as SMT literals.
func intRange(b *types.Basic) (string, string) {
	switch b.Kind() {
	case types.Int8:
		return "(- 128)", "127"
	case types.Int16:
		return "(- 32768)", "32767"
	case types.Int32, types.UntypedRune:
		return "(- 2147483648)", "2147483647"
	case types.Int, types.Int64, types.UntypedInt:
		return "(- 9223372036854775808)", "9223372036854775807"
	case types.Uint8:
		return "0", "255"
	case types.Uint16:
		return "0", "65535"
	case types.Uint32:
		return "0", "4294967295"
	case types.Uint, types.Uint64, types.Uintptr:
		return "0", "18446744073709551615"
	}
	return "(- 9223372036854775808)", "9223372036854775807"
}

func intWidth(b *types.Basic) (bits int, signed bool) {
	switch b.Kind() {
	case types.Int8:
		return 8, true
	case types.Int16:
		return 16, true
	case types.Int32, types.UntypedRune:
		return 32, true
	case types.Int, types.Int64, types.UntypedInt:
		return 64, true
	case types.Uint8:
		return 8, false
	case types.Uint16:
		return 16, false
	case types.Uint32:
		return 32, false
	case types.Uint, types.Uint64, types.Uintptr:
		return 64, false
	}
	return 64, true
}

func pow2(n int) string {
	// decimal string of 2^n for n<=64
	v := new(bigInt).setPow2(n)
	return v.String()
}

type bigInt struct{ s string }

func (b *bigInt) setPow2(n int) *bigInt {
	digits := []int{1}
	for i := 0; i < n; i++ {
		carry := 0
		for j := range digits {
			d := digits[j]*2 + carry
			digits[j] = d % 10
			carry = d / 10
		}
		if carry > 0 {
			digits = append(digits, carry)
		}
	}
	var sb strings.Builder
	for i := len(digits) - 1; i >= 0; i-- {
		sb.WriteByte(byte('0' + digits[i]))
	}
	b.s = sb.String()
	return b
}
func (b *bigInt) String() string { return b.s }

// valEqual builds the SMT equality of two values of the same shape; ok=false
// if equality of this shape is not expressible (caller falls back to unknown).
var cellCmpCounter int64

func valEqual(a, b Val) (string, bool) {
	switch x := a.(type) {
	case Int:
		switch y := b.(type) {
		case Int:
			return sEq(x.T, y.T), true
		}
	case Bool:
		if y, ok := b.(Bool); ok {
			return sEq(x.T, y.T), true
		}
	case Flt:
		if y, ok := b.(Flt); ok {
			return "(fp.eq " + x.T + " " + y.T + ")", true
		}
	case Str:
		if y, ok := b.(Str); ok {
			return strEqual(x, y), true
		}
	case Ptr:
		if y, ok := b.(Ptr); ok {
			if x.Cell != nil && y.Cell != nil {
				if x.Cell == y.Cell && pathCode(x.Path) == pathCode(y.Path) {
					return "true", true
				}
				return "false", true
			}
			if x.Cell != nil || y.Cell != nil {
				// a cell pointer (the address of a local of the function under verification) is never nil.
				// Whether it equals a symbolic heap pointer (something a callee returned or stored) is not
				// representable: undetermined — an unconstrained boolean, which proves nothing as a goal and
				// adds nothing as an assumption. (It used to read as false, which made a callee postcondition
				// such as `result.Name == f.Name` contradict the path and end it silently.)
				other := x
				if x.Cell != nil {
					other = y
				}
				if other.Cell == nil && other.Arr == "" && other.Ref == "0" {
					return "false", true
				}
				n := atomic.AddInt64(&cellCmpCounter, 1)
				return fmt.Sprintf("(cellcmp %d)", n), true
			}
			return sEq(ptrTerm(x), ptrTerm(y)), true
		}
	case Slice:
		// only comparison with nil is legal in Go
		if y, ok := b.(Slice); ok {
			if y.Arr == "0" && y.Len == "0" {
				return sEq(x.Arr, "0"), true
			}
			if x.Arr == "0" && x.Len == "0" {
				return sEq(y.Arr, "0"), true
			}
			return sAnd(sEq(x.Arr, y.Arr), sEq(x.Off, y.Off), sEq(x.Len, y.Len)), true
		}
	case Iface:
		if y, ok := b.(Iface); ok {
			return sAnd(sEq(x.Tag, y.Tag), sEq(x.Pay, y.Pay)), true
		}
	case Func:
		if y, ok := b.(Func); ok {
			return sEq(x.T, y.T), true
		}
	case MapV:
		if y, ok := b.(MapV); ok {
			return sEq(x.Ref, y.Ref), true
		}
	case Opaque:
		if y, ok := b.(Opaque); ok {
			return sEq(x.T, y.T), true
		}
	case Struct:
		if y, ok := b.(Struct); ok && len(x.F) == len(y.F) {
			var cs []string
			for i := range x.F {
				c, ok := valEqual(x.F[i], y.F[i])
				if !ok {
					return "", false
				}
				cs = append(cs, c)
			}
			return sAnd(cs...), true
		}
	case Tuple:
		if y, ok := b.(Tuple); ok && len(x.E) == len(y.E) {
			var cs []string
			for i := range x.E {
				c, ok := valEqual(x.E[i], y.E[i])
				if !ok {
					return "", false
				}
				cs = append(cs, c)
			}
			return sAnd(cs...), true
		}
	}
	return "", false
}

var qvCounter int

func strEqual(x, y Str) string {
	if x.Base == y.Base && x.Off == y.Off {
		return sEq(x.Len, y.Len)
	}
	if x.Len == "0" {
		return sEq(y.Len, "0")
	}
	if y.Len == "0" {
		return sEq(x.Len, "0")
	}
	// two whole literals: decided by their text
	if x.Off == "0" && y.Off == "0" {
		if xs, ok := litContent.Load(x.Base); ok {
			if ys, ok := litContent.Load(y.Base); ok && x.Len == strconv.Itoa(len(xs.(string))) && y.Len == strconv.Itoa(len(ys.(string))) {
				if xs.(string) == ys.(string) {
					return "true"
				}
				return "false"
			}
		}
	}
	// one whole literal (short): the other string equals it iff it has its length and its bytes
	for k := 0; k < 2; k++ {
		lit, other := x, y
		if k == 1 {
			lit, other = y, x
		}
		if lit.Off != "0" {
			continue
		}
		if ls, ok := litContent.Load(lit.Base); ok {
			text := ls.(string)
			if lit.Len != strconv.Itoa(len(text)) || len(text) > 48 {
				continue
			}
			cs := []string{"(= " + other.Len + " " + strconv.Itoa(len(text)) + ")"}
			for i := 0; i < len(text); i++ {
				cs = append(cs, "(= (select "+other.Base+" (+ "+other.Off+" "+strconv.Itoa(i)+")) "+strconv.Itoa(int(text[i]))+")")
			}
			return sAnd(cs...)
		}
	}
	// Content equality of two differently represented strings is the
	// uninterpreted predicate streq (made symmetric by ordering its arguments),
	// constrained by: equal strings have equal lengths and equal first bytes.
	// The program and the contracts use the same predicate, so every
	// conclusion holds for the real interpretation in particular.
	a := x.Base + " " + x.Off + " " + x.Len
	b := y.Base + " " + y.Off + " " + y.Len
	if b < a {
		a, b = b, a
		x, y = y, x
	}
	p := "(streq " + a + " " + b + ")"
	same := "(and (= " + x.Base + " " + y.Base + ") (= " + x.Off + " " + y.Off + ") (= " + x.Len + " " + y.Len + "))"
	return "(or " + same + " (and " + p + " (= " + x.Len + " " + y.Len + ") (=> (> " + x.Len + " 0) (= (select " + x.Base + " " + x.Off + ") (select " + y.Base + " " + y.Off + ")))))"
}

// iteVal merges two values of identical shape.
func iteVal(c string, a, b Val) Val {
	fa, fb := flatten(a), flatten(b)
	if len(fa) != len(fb) {
		return a
	}
	out := make([]string, len(fa))
	for i := range fa {
		out[i] = sIte(c, fa[i], fb[i])
	}
	return rebuildLike(a, out)
}

// rebuildLike rebuilds a value with the same Go-side shape as `like`.
func rebuildLike(like Val, ts []string) Val {
	v, _ := rebuildLike2(like, ts)
	return v
}

func rebuildLike2(like Val, ts []string) (Val, []string) {
	switch x := like.(type) {
	case Int:
		return Int{ts[0]}, ts[1:]
	case Bool:
		return Bool{ts[0]}, ts[1:]
	case Flt:
		return Flt{ts[0], x.Bits}, ts[1:]
	case Str:
		return Str{ts[0], ts[1], ts[2]}, ts[3:]
	case Slice:
		return Slice{ts[0], ts[1], ts[2], ts[3], x.Elem}, ts[4:]
	case Ptr:
		return Ptr{Ref: ts[0], Elem: x.Elem}, ts[1:]
	case Iface:
		return Iface{ts[0], ts[1]}, ts[2:]
	case Func:
		return Func{T: ts[0]}, ts[1:]
	case MapV:
		return MapV{ts[0], x.Key, x.Elt}, ts[1:]
	case Opaque:
		return Opaque{x.Typ, ts[0]}, ts[1:]
	case Struct:
		s := Struct{Typ: x.Typ}
		for _, f := range x.F {
			var nf Val
			nf, ts = rebuildLike2(f, ts)
			s.F = append(s.F, nf)
		}
		return s, ts
	case Tuple:
		t := Tuple{}
		for _, f := range x.E {
			var nf Val
			nf, ts = rebuildLike2(f, ts)
			t.E = append(t.E, nf)
		}
		return t, ts
	}
	panic("rebuildLike")
}

func float32bits(f float32) uint32 { return math.Float32bits(f) }
func float64bits(f float64) uint64 { return math.Float64bits(f) }
