package main

// SMT layer: a live incremental z3 session per verified function (DFS over the
// path tree maps onto push/pop) plus a standalone "race" of all installed
// solvers for queries the live session does not decide.

import (
	"bufio"
	"bytes"
	"context"
	"fmt"
	"io"
	"os"
	"os/exec"
	"path/filepath"
	"strconv"
	"strings"
	"sync"
	"sync/atomic"
	"time"
)

type SolverStats struct {
	mu       sync.Mutex
	Queries  int
	ByEngine map[string]int
	WallMs   int64
	MaxMs    int64
}

var gStats = &SolverStats{ByEngine: map[string]int{}}

func (s *SolverStats) add(engine string, ms int64) {
	s.mu.Lock()
	s.Queries++
	s.ByEngine[engine]++
	s.WallMs += ms
	if ms > s.MaxMs {
		s.MaxMs = ms
	}
	s.mu.Unlock()
}

// Session mirrors the assertion stack so a standalone script can be dumped.
type Session struct {
	preamble []string
	frames   [][]string
	cmd      *exec.Cmd
	in       io.WriteCloser
	out      *bufio.Reader
	dead     bool
	timeout  int // ms per check in live session
	nchecks  int
	dry      bool // no solver: used for the path-counting pre-pass
	scoped   bool
}

func NewDrySession() *Session {
	return &Session{frames: [][]string{{}}, dead: true, dry: true}
}

func NewSession(preamble []string, liveTimeoutMs int) *Session {
	s := &Session{preamble: preamble, frames: [][]string{{}}, timeout: liveTimeoutMs}
	s.start()
	return s
}

func (s *Session) start() {
	s.cmd = exec.Command("z3-new", "-in", "-smt2")
	in, _ := s.cmd.StdinPipe()
	out, _ := s.cmd.StdoutPipe()
	s.cmd.Stderr = nil
	if err := s.cmd.Start(); err != nil {
		s.dead = true
		return
	}
	s.in = in
	if tf := os.Getenv("GOVC_TRACE"); tf != "" {
		f, _ := os.OpenFile(tf, os.O_CREATE|os.O_WRONLY|os.O_APPEND, 0o644)
		s.in = teeWriter{in, f}
	}
	s.out = bufio.NewReaderSize(out, 1<<20)
	s.dead = false
	fmt.Fprintf(s.in, "(set-option :global-declarations true)\n(set-option :timeout %d)\n", s.timeout)
	for _, l := range s.preamble {
		io.WriteString(s.in, l+"\n")
	}
	for i, f := range s.frames {
		if i > 0 {
			io.WriteString(s.in, "(push 1)\n")
		}
		for _, l := range f {
			io.WriteString(s.in, l+"\n")
		}
	}
}

func (s *Session) Close() {
	if s.dry {
		return
	}
	if s.in != nil {
		s.in.Close()
	}
	if s.cmd != nil && s.cmd.Process != nil {
		s.cmd.Process.Kill()
		s.cmd.Wait()
	}
}

func (s *Session) Cmd(l string) {
	s.frames[len(s.frames)-1] = append(s.frames[len(s.frames)-1], l)
	if !s.dead {
		if _, err := io.WriteString(s.in, l+"\n"); err != nil {
			s.dead = true
		}
	}
}

// Decl adds a declaration to the base frame (declarations are global: the
// live solver runs with :global-declarations).
func (s *Session) Decl(l string) {
	s.frames[0] = append(s.frames[0], l)
	if !s.dead {
		if _, err := io.WriteString(s.in, l+"\n"); err != nil {
			s.dead = true
		}
	}
}

func (s *Session) Push() {
	s.frames = append(s.frames, nil)
	if !s.dead {
		io.WriteString(s.in, "(push 1)\n")
	}
}

func (s *Session) Pop() {
	s.frames = s.frames[:len(s.frames)-1]
	if !s.dead {
		io.WriteString(s.in, "(pop 1)\n")
	}
}

func (s *Session) Depth() int { return len(s.frames) }

// Dump returns a standalone script equal to the current stack plus extra.
func (s *Session) Dump(extra ...string) string {
	var b strings.Builder
	for _, l := range s.preamble {
		b.WriteString(l)
		b.WriteByte('\n')
	}
	for _, f := range s.frames {
		for _, l := range f {
			b.WriteString(l)
			b.WriteByte('\n')
		}
	}
	for _, l := range extra {
		b.WriteString(l)
		b.WriteByte('\n')
	}
	return b.String()
}

func (s *Session) readLine() (string, bool) {
	type res struct {
		l   string
		err error
	}
	ch := make(chan res, 1)
	go func() {
		l, err := s.out.ReadString('\n')
		ch <- res{l, err}
	}()
	select {
	case r := <-ch:
		if r.err != nil {
			return "", false
		}
		return strings.TrimSpace(r.l), true
	case <-time.After(time.Duration(s.timeout+5000) * time.Millisecond):
		return "", false
	}
}

// CheckNot checks whether `(not goal)` is unsatisfiable on the current stack
// in the live session. Returns "unsat", "sat", "unknown"; on sat the values
// of getValues (raw get-value answer) are returned too.
func (s *Session) CheckNot(goal string, getValues []string) (string, int64, string) {
	if s.dry {
		return "unsat", 0, ""
	}
	t0 := time.Now()
	s.nchecks++
	if s.dead {
		return "unknown", 0, ""
	}
	io.WriteString(s.in, "(push 1)\n(assert (not "+goal+"))\n(check-sat)\n")
	res := ""
	for {
		l, ok := s.readLine()
		if !ok {
			// solver wedged or died: restart from the mirror
			s.Close()
			s.start()
			ms := time.Since(t0).Milliseconds()
			gStats.add("z3-new(live)", ms)
			return "unknown", ms, ""
		}
		if l == "unsat" || l == "sat" || l == "unknown" || l == "timeout" {
			if l == "timeout" {
				l = "unknown"
			}
			res = l
			break
		}
		if strings.HasPrefix(l, "(error") {
			fmt.Fprintf(os.Stderr, "SMT ERROR (live): %s\n  goal: %.300s\n", l, goal)
		}
	}
	model := ""
	if res == "sat" && len(getValues) > 0 {
		io.WriteString(s.in, "(get-value ("+strings.Join(getValues, " ")+"))\n")
		depth, started := 0, false
		for {
			l, ok := s.readLine()
			if !ok {
				s.Close()
				s.start()
				ms := time.Since(t0).Milliseconds()
				gStats.add("z3-new(live)", ms)
				return res, ms, model
			}
			model += l + "\n"
			for _, c := range l {
				if c == '(' {
					depth++
					started = true
				} else if c == ')' {
					depth--
				}
			}
			if strings.HasPrefix(l, "(error") || (started && depth <= 0) {
				break
			}
		}
	}
	io.WriteString(s.in, "(pop 1)\n")
	ms := time.Since(t0).Milliseconds()
	gStats.add("z3-new(live)", ms)
	return res, ms, model
}

// CheckSat checks satisfiability of the current stack (used for cover /
// feasibility queries).
func (s *Session) CheckSat() string { return s.CheckSatT(0) }

// CheckSatT: satisfiability of the current stack with a temporary timeout.
// ProbeStandalone: satisfiability of the current stack decided by a separate solver process, so that the live
// session (whose later answers depend on its history) is not disturbed. "sat" | "unsat" | "unknown".
func (s *Session) ProbeStandalone(ms int) string {
	if s.dry {
		return "sat"
	}
	n := atomic.AddInt64(&scratchCounter, 1)
	f := filepath.Join(scratchDir(), fmt.Sprintf("probe%d.smt2", n))
	os.WriteFile(f, []byte(s.Dump()+"(check-sat)\n"), 0o644)
	defer os.Remove(f)
	// hard limit as well: the soft (per check-sat) limit is not honoured inside some preprocessing steps
	ctx, cancel := context.WithTimeout(context.Background(), time.Duration(ms+1500)*time.Millisecond)
	defer cancel()
	out, _ := exec.CommandContext(ctx, "z3-new", fmt.Sprintf("-t:%d", ms), "-T:2", f).Output()
	first := strings.TrimSpace(strings.SplitN(string(out), "\n", 2)[0])
	if first == "sat" || first == "unsat" {
		return first
	}
	return "unknown"
}

// CheckSatScoped: CheckSatT inside a push/pop of its own.
func (s *Session) CheckSatScoped(ms int) string {
	s.scoped = true
	defer func() { s.scoped = false }()
	return s.CheckSatT(ms)
}

func (s *Session) CheckSatT(ms int) string {
	if s.dry {
		return "sat"
	}
	if s.dead {
		return "unknown"
	}
	t0 := time.Now()
	if ms > 0 && s.scoped {
		// inside its own scope, so that nothing the solver derives during the probe outlives it
		fmt.Fprintf(s.in, "(push 1)\n(set-option :timeout %d)\n(check-sat)\n(set-option :timeout %d)\n(pop 1)\n", ms, s.timeout)
	} else if ms > 0 {
		fmt.Fprintf(s.in, "(set-option :timeout %d)\n(check-sat)\n(set-option :timeout %d)\n", ms, s.timeout)
	} else {
		io.WriteString(s.in, "(check-sat)\n")
	}
	for {
		l, ok := s.readLine()
		if !ok {
			s.Close()
			s.start()
			return "unknown"
		}
		if l == "unsat" || l == "sat" || l == "unknown" || l == "timeout" {
			gStats.add("z3-new(live)", time.Since(t0).Milliseconds())
			if l == "timeout" {
				l = "unknown"
			}
			return l
		}
		if strings.HasPrefix(l, "(error") {
			fmt.Fprintf(os.Stderr, "SMT ERROR (live): %s\n", l)
		}
	}
}

type RaceResult struct {
	Status  string // unsat | sat | unknown
	Engine  string
	Ms      int64
	Outputs map[string]string // engine -> raw output (truncated)
	Model   string            // raw get-value output when sat
}

var raceSem = make(chan struct{}, 12)
var scratchCounter int64

func scratchDir() string {
	d := os.Getenv("GOVC_SCRATCH")
	if d == "" {
		d = filepath.Join(os.TempDir(), fmt.Sprintf("govc-%d", os.Getpid()))
	}
	os.MkdirAll(d, 0o755)
	return d
}

// Race runs the standalone script (which must end before check-sat) on the
// three solvers concurrently. getValues, if non-empty, is appended as a
// (get-value (...)) after check-sat.
func Race(script string, timeoutS int, getValues []string) RaceResult {
	raceSem <- struct{}{}
	defer func() { <-raceSem }()
	n := atomic.AddInt64(&scratchCounter, 1)
	dir := scratchDir()
	base := filepath.Join(dir, fmt.Sprintf("q%d", n))
	tail := "(check-sat)\n"
	if len(getValues) > 0 {
		tail += "(get-value (" + strings.Join(getValues, " ") + "))\n"
	}
	z3file := base + ".z3.smt2"
	os.WriteFile(z3file, []byte("(set-option :produce-models true)\n"+script+tail), 0o644)
	// cvc5: no z3-specific options; needs logic
	cvfile := base + ".cvc5.smt2"
	os.WriteFile(cvfile, []byte("(set-option :produce-models true)\n(set-logic ALL)\n"+stripZ3Options(script)+tail), 0o644)
	defer os.Remove(z3file)
	defer os.Remove(cvfile)

	type one struct {
		eng, out string
		ms       int64
	}
	ctx, cancel := context.WithCancel(context.Background())
	defer cancel()
	ch := make(chan one, 3)
	run := func(eng string, args ...string) {
		t0 := time.Now()
		c := exec.CommandContext(ctx, args[0], args[1:]...)
		var ob bytes.Buffer
		c.Stdout = &ob
		c.Stderr = &ob
		c.Run()
		ch <- one{eng, ob.String(), time.Since(t0).Milliseconds()}
	}
	go run("z3-new", "z3-new", fmt.Sprintf("-T:%d", timeoutS), z3file)
	go run("z3", "z3", fmt.Sprintf("-T:%d", timeoutS), z3file)
	go run("cvc5", "cvc5", fmt.Sprintf("--tlimit=%d", timeoutS*1000), cvfile)
	res := RaceResult{Status: "unknown", Outputs: map[string]string{}}
	for i := 0; i < 3; i++ {
		o := <-ch
		gStats.add(o.eng, o.ms)
		first := strings.TrimSpace(strings.SplitN(o.out, "\n", 2)[0])
		trunc := o.out
		if len(trunc) > 2000 {
			trunc = trunc[:2000]
		}
		res.Outputs[o.eng] = trunc
		if first == "unsat" {
			res.Status, res.Engine, res.Ms = "unsat", o.eng, o.ms
			cancel()
			return res
		}
		if first == "sat" && res.Status != "sat" {
			res.Status, res.Engine, res.Ms = "sat", o.eng, o.ms
			if idx := strings.Index(o.out, "\n"); idx >= 0 {
				res.Model = o.out[idx+1:]
			}
			// a sat answer is definitive too
			cancel()
			return res
		}
	}
	return res
}

func stripZ3Options(s string) string {
	var b strings.Builder
	for _, l := range strings.Split(s, "\n") {
		if strings.HasPrefix(l, "(set-option :timeout") || strings.HasPrefix(l, "(set-option :smt.") {
			continue
		}
		b.WriteString(l)
		b.WriteByte('\n')
	}
	return b.String()
}

// ---- small term helpers ----

func sAnd(ts ...string) string {
	var xs []string
	for _, t := range ts {
		if t == "true" || t == "" {
			continue
		}
		if t == "false" {
			return "false"
		}
		xs = append(xs, t)
	}
	if len(xs) == 0 {
		return "true"
	}
	if len(xs) == 1 {
		return xs[0]
	}
	return "(and " + strings.Join(xs, " ") + ")"
}

func sOr(ts ...string) string {
	var xs []string
	for _, t := range ts {
		if t == "false" || t == "" {
			continue
		}
		if t == "true" {
			return "true"
		}
		xs = append(xs, t)
	}
	if len(xs) == 0 {
		return "false"
	}
	if len(xs) == 1 {
		return xs[0]
	}
	return "(or " + strings.Join(xs, " ") + ")"
}

func sNot(t string) string {
	if t == "true" {
		return "false"
	}
	if t == "false" {
		return "true"
	}
	if strings.HasPrefix(t, "(not ") && balanced(t[5:len(t)-1]) {
		return t[5 : len(t)-1]
	}
	return "(not " + t + ")"
}

func balanced(s string) bool {
	d := 0
	for _, c := range s {
		if c == '(' {
			d++
		} else if c == ')' {
			d--
			if d < 0 {
				return false
			}
		}
	}
	return d == 0
}

func sImp(a, b string) string {
	if a == "true" {
		return b
	}
	if a == "false" || b == "true" {
		return "true"
	}
	return "(=> " + a + " " + b + ")"
}

func sIte(c, a, b string) string {
	if c == "true" {
		return a
	}
	if c == "false" {
		return b
	}
	if a == b {
		return a
	}
	return "(ite " + c + " " + a + " " + b + ")"
}

func sEq(a, b string) string {
	if a == b {
		return "true"
	}
	return "(= " + a + " " + b + ")"
}

func sInt(n int64) string {
	if n < 0 {
		return fmt.Sprintf("(- %d)", -n)
	}
	return fmt.Sprintf("%d", n)
}

func sApp(f string, args ...string) string {
	if len(args) == 0 {
		return f
	}
	return "(" + f + " " + strings.Join(args, " ") + ")"
}

// smtSym quotes an arbitrary name as an SMT symbol.
func smtSym(s string) string {
	ok := true
	for _, c := range s {
		if !(c >= 'a' && c <= 'z' || c >= 'A' && c <= 'Z' || c >= '0' && c <= '9' || c == '_' || c == '.' || c == '$' || c == '!' || c == '~' || c == '@') {
			ok = false
			break
		}
	}
	if ok && len(s) > 0 && !(s[0] >= '0' && s[0] <= '9') {
		return s
	}
	s = strings.ReplaceAll(s, "|", "!")
	s = strings.ReplaceAll(s, "\\", "!")
	return "|" + s + "|"
}

type teeWriter struct {
	w io.WriteCloser
	f *os.File
}

func (t teeWriter) Write(p []byte) (int, error) { t.f.Write(p); return t.w.Write(p) }
func (t teeWriter) Close() error                { t.f.Close(); return t.w.Close() }

// groundBool evaluates a closed term over integer literals, comparisons and boolean connectives.
// ok=false when the term mentions anything else. Used to short-circuit contract expressions whose
// guard is decided by the path (ghost call counters are concrete per path).
func groundBool(t string) (val bool, ok bool) {
	v, rest, ok := groundEval(strings.TrimSpace(t))
	if !ok || strings.TrimSpace(rest) != "" {
		return false, false
	}
	b, isB := v.(bool)
	return b, isB
}

func groundEval(s string) (interface{}, string, bool) {
	s = strings.TrimLeft(s, " \n\t")
	if s == "" {
		return nil, s, false
	}
	if s[0] != '(' {
		i := 0
		for i < len(s) && s[i] != ' ' && s[i] != ')' && s[i] != '(' {
			i++
		}
		tok := s[:i]
		switch tok {
		case "true":
			return true, s[i:], true
		case "false":
			return false, s[i:], true
		}
		n, err := strconv.ParseInt(tok, 10, 64)
		if err != nil {
			return nil, s, false
		}
		return n, s[i:], true
	}
	s = strings.TrimLeft(s[1:], " ")
	i := 0
	for i < len(s) && s[i] != ' ' && s[i] != ')' {
		i++
	}
	op := s[:i]
	s = s[i:]
	var args []interface{}
	for {
		s = strings.TrimLeft(s, " \n\t")
		if s == "" {
			return nil, s, false
		}
		if s[0] == ')' {
			s = s[1:]
			break
		}
		v, rest, ok := groundEval(s)
		if !ok {
			return nil, s, false
		}
		args = append(args, v)
		s = rest
	}
	ints := func() ([]int64, bool) {
		var r []int64
		for _, a := range args {
			n, ok := a.(int64)
			if !ok {
				return nil, false
			}
			r = append(r, n)
		}
		return r, true
	}
	bools := func() ([]bool, bool) {
		var r []bool
		for _, a := range args {
			b, ok := a.(bool)
			if !ok {
				return nil, false
			}
			r = append(r, b)
		}
		return r, true
	}
	switch op {
	case "+", "-", "*":
		n, ok := ints()
		if !ok || len(n) == 0 {
			return nil, s, false
		}
		if op == "-" && len(n) == 1 {
			return -n[0], s, true
		}
		acc := n[0]
		for _, v := range n[1:] {
			switch op {
			case "+":
				acc += v
			case "-":
				acc -= v
			case "*":
				acc *= v
			}
		}
		return acc, s, true
	case "<", "<=", ">", ">=", "=":
		if op == "=" {
			if b, ok := bools(); ok && len(b) == 2 {
				return b[0] == b[1], s, true
			}
		}
		n, ok := ints()
		if !ok || len(n) != 2 {
			return nil, s, false
		}
		switch op {
		case "<":
			return n[0] < n[1], s, true
		case "<=":
			return n[0] <= n[1], s, true
		case ">":
			return n[0] > n[1], s, true
		case ">=":
			return n[0] >= n[1], s, true
		}
		return n[0] == n[1], s, true
	case "not":
		b, ok := bools()
		if !ok || len(b) != 1 {
			return nil, s, false
		}
		return !b[0], s, true
	case "and", "or", "=>":
		b, ok := bools()
		if !ok || len(b) == 0 {
			return nil, s, false
		}
		switch op {
		case "and":
			for _, v := range b {
				if !v {
					return false, s, true
				}
			}
			return true, s, true
		case "or":
			for _, v := range b {
				if v {
					return true, s, true
				}
			}
			return false, s, true
		}
		if len(b) != 2 {
			return nil, s, false
		}
		return !b[0] || b[1], s, true
	}
	return nil, s, false
}
