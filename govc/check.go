package main

// `govc check`: the command behind MANIFEST quick_cmd / thorough_cmd.
// Verifies every function whose contract names the property, applies the
// known-findings policy, writes evidence and replay files, prints
// VIOLATION / KNOWN-FINDING lines.

import (
	"encoding/json"
	"flag"
	"fmt"
	"os"
	"path/filepath"
	"regexp"
	"sort"
	"strconv"
	"strings"
	"sync"
	"time"
)

type KnownFinding struct {
	ID         string   `json:"id"`
	Properties []string `json:"properties"`
	Obligation string   `json:"obligation"`
	Guard      string   `json:"guard"`
	What       string   `json:"what"`
	Witness    string   `json:"witness,omitempty"`
}

type KnownFile struct {
	Findings []KnownFinding `json:"findings"`
	Fixed    []string       `json:"fixed"`
}

func loadKnown(path string) (*KnownFile, error) {
	kf := &KnownFile{}
	data, err := os.ReadFile(path)
	if err != nil {
		if os.IsNotExist(err) {
			return kf, nil
		}
		return nil, err
	}
	if err := json.Unmarshal(data, kf); err != nil {
		return nil, err
	}
	return kf, nil
}

type Evidence struct {
	PropertyID  string                 `json:"property_id"`
	Tier        string                 `json:"tier"`
	Seed        int                    `json:"seed"`
	Level       string                 `json:"level"`
	Coverage    map[string]interface{} `json:"coverage"`
	Assumptions []string               `json:"assumptions"`
	WallS       float64                `json:"wall_s"`
	Violations  int                    `json:"violations"`
}

func cmdCheck(args []string) int {
	fs := flag.NewFlagSet("check", flag.ExitOnError)
	repo := fs.String("repo", "/repo", "repository working tree")
	prop := fs.String("prop", "", "property id")
	tier := fs.String("tier", "quick", "quick|thorough")
	verif := fs.String("verif", "/verif", "verif directory")
	only := fs.String("func", "", "debug: only functions whose key contains this")
	noKnown := fs.Bool("noknown", false, "debug: ignore the known-findings file")
	fs.Parse(args)
	if *prop == "" {
		fmt.Fprintln(os.Stderr, "check: -prop required")
		return 2
	}
	if t := os.Getenv("VERIF_TIER"); t == "quick" || t == "thorough" {
		*tier = t
	}
	seed, _ := strconv.Atoi(os.Getenv("VERIF_SEED"))
	t0 := time.Now()
	known, err := loadKnown(filepath.Join(*verif, "known_findings.json"))
	if err != nil {
		fmt.Fprintln(os.Stderr, "known findings:", err)
		return 2
	}
	eng, err := LoadEngine(*repo, loadPatterns)
	if err != nil {
		fmt.Fprintln(os.Stderr, "cannot load repository (build failure?):", err)
		return 2
	}
	loadMs := time.Since(t0).Milliseconds()
	opts := VerifyOpts{LiveTimeoutMs: 2000, RaceTimeoutS: 10, PathCap: 6000, InlineDepth: 3}
	if *tier == "thorough" {
		opts = VerifyOpts{LiveTimeoutMs: 5000, RaceTimeoutS: 60, PathCap: 20000, InlineDepth: 3}
	}
	if os.Getenv("GOVC_KEEP") == "" {
		defer os.RemoveAll(scratchDir())
	}

	var todo []*FuncContract
	var keys []string
	for k := range eng.contracts.Funcs {
		keys = append(keys, k)
	}
	sort.Strings(keys)
	for _, k := range keys {
		fc := eng.contracts.Funcs[k]
		if fc.Trusted || !fc.Bound || eng.fnByKey[k] == nil || !hasProp(fc, *prop) {
			continue
		}
		if *only != "" && !strings.Contains(k, *only) {
			continue
		}
		todo = append(todo, fc)
	}
	results := make([]*FuncResult, len(todo))
	var wg sync.WaitGroup
	sem := make(chan struct{}, 14)
	for i, fc := range todo {
		wg.Add(1)
		go func(i int, fc *FuncContract) {
			defer wg.Done()
			sem <- struct{}{}
			defer func() { <-sem }()
			results[i] = eng.VerifyFunction(eng.fnByKey[ckey(fc.Pkg, fc.Key)], fc, opts)
		}(i, fc)
	}
	wg.Wait()
	rep := buildReport(eng, results, *prop, *tier, loadMs, time.Since(t0))

	// known-findings policy
	knownBy := map[string]*KnownFinding{}
	for i := range known.Findings {
		k := &known.Findings[i]
		if !*noKnown {
			knownBy[k.Obligation] = k
		}
	}
	fcByDisplay := map[string]*FuncContract{}
	for _, r := range results {
		fcByDisplay[r.Display] = r.fc
	}
	type guardKey struct{ fn, guard string }
	guarded := map[guardKey]*FuncResult{}
	var knownLines, violLines []string
	var assumptions []string
	replayDir := filepath.Join(*verif, "replays", *prop)
	os.RemoveAll(replayDir)
	nViol := 0
	nKnown := 0
	for i := range rep.Obligs {
		o := &rep.Obligs[i]
		if o.Status != "failed" {
			continue
		}
		if kf := knownBy[o.Name]; kf != nil && fcByDisplay[o.Function] != nil {
			gk := guardKey{o.Function, kf.Guard}
			gr := guarded[gk]
			if strings.TrimSpace(kf.Guard) == "false" {
				// no region is left in which the obligation holds: the finding is identified by the obligation alone
				o.Status = "known-finding"
				rep.Failed--
				rep.Discharged++
				nKnown++
				knownLines = append(knownLines, fmt.Sprintf("KNOWN-FINDING: property=%s %s %s (no guard: the obligation is not claimed anywhere)", *prop, o.Name, kf.What))
				assumptions = append(assumptions, fmt.Sprintf("known finding %s: obligation %s is NOT discharged and not counted as proved", kf.ID, o.Name))
				rep.Discharged--
				rep.Obligations--
				continue
			}
			if gr == nil {
				fc := fcByDisplay[o.Function]
				fc2 := *fc
				ge, err := parseContractExpr(kf.Guard)
				if err == nil {
					fc2.Requires = append(append([]*Clause{}, fc.Requires...), &Clause{Kind: "requires", Text: kf.Guard, Expr: ge, Ord: len(fc.Requires) + 1})
					gr = eng.VerifyFunction(eng.fnByKey[ckey(fc.Pkg, fc.Key)], &fc2, opts)
				} else {
					gr = &FuncResult{Error: "guard does not parse: " + err.Error()}
				}
				guarded[gk] = gr
			}
			ok := gr.Error == "" && !gr.Capped && gr.Vacuous == ""
			found := false
			for _, go2 := range gr.Obligs {
				if go2.Name == o.Name {
					found = true
					if len(go2.Failures) > 0 {
						ok = false
					}
				}
			}
			if !(ok && found) {
				why := fmt.Sprintf("error=%q capped=%v vacuous=%q found=%v", gr.Error, gr.Capped, gr.Vacuous, found)
				for _, go2 := range gr.Obligs {
					if go2.Name == o.Name {
						for _, f := range go2.Failures {
							why += " status=" + f.Status
						}
					}
				}
				fmt.Printf("GUARDED-RECHECK %s under `%s` did not discharge: %s\n", o.Name, kf.Guard, why)
			}
			if ok && found {
				o.Status = "known-finding"
				rep.Failed--
				rep.Discharged++
				nKnown++
				knownLines = append(knownLines, fmt.Sprintf("KNOWN-FINDING: property=%s %s %s (obligation holds under guard: %s)", *prop, o.Name, kf.What, kf.Guard))
				assumptions = append(assumptions, fmt.Sprintf("known finding %s: obligation %s is discharged only under the guard `%s`", kf.ID, o.Name, kf.Guard))
				continue
			}
		}
		// violation
		nViol++
		os.MkdirAll(replayDir, 0o755)
		fname := regexp.MustCompile(`[^A-Za-z0-9_.#-]+`).ReplaceAllString(o.Name, "_") + ".json"
		rp := filepath.Join(replayDir, fname)
		witness := false
		var replays []*ReplayOutcome
		if os.Getenv("GOVC_NOREPLAY") == "" {
			for _, f := range o.raw {
				if f.Status != "sat" || f.x == nil || f.Script == "" || len(replays) >= 2 {
					continue
				}
				src, dir, outc := eng.BuildReplay(f.x, f.x.top, f.x.fc, f, opts.RaceTimeoutS)
				if src != "" && outc.Verdict == "" {
					eng.RunReplay(src, dir, outc)
				}
				replays = append(replays, outc)
				if outc.Verdict == "fail" {
					witness = true
					break
				}
			}
		}
		rf := map[string]interface{}{
			"property": *prop, "obligation": o.Name, "kind": o.Kind, "function": o.Function, "position": o.Pos, "clause": o.Text,
			"failures": o.Failures, "replays": replays, "note": "obligation generated from /repo's current source was not discharged; solver outputs attached",
		}
		data, _ := json.MarshalIndent(rf, "", " ")
		os.WriteFile(rp, data, 0o644)
		line := fmt.Sprintf("VIOLATION property=%s replay=%s", *prop, rp)
		if !witness {
			line += " no-failing-input-found"
		}
		violLines = append(violLines, line)
	}

	// bounded stand-ins for this property (reported separately, never counted as discharged)
	var boundedResults []*BoundedResult
	if *only == "" && os.Getenv("GOVC_NOBOUNDED") == "" {
		for _, bs := range loadBoundedSpecs(*verif) {
			if !contains(bs.Props, *prop) || (bs.Tiers == "thorough" && *tier != "thorough") {
				continue
			}
			br := runBounded(*repo, bs, *tier, seed)
			boundedResults = append(boundedResults, br)
			if br.Error != "" && len(br.Failures) == 0 {
				fmt.Printf("BOUNDED %s: could not run: %.300s\n", br.Name, br.Error)
				nViol++
				os.MkdirAll(replayDir, 0o755)
				rp := filepath.Join(replayDir, "bounded_"+br.Name+"_cannot_run.json")
				data, _ := json.MarshalIndent(map[string]interface{}{"property": *prop, "bounded": br.Name, "error": br.Error}, "", " ")
				os.WriteFile(rp, data, 0o644)
				violLines = append(violLines, fmt.Sprintf("VIOLATION property=%s replay=%s no-failing-input-found", *prop, rp))
				continue
			}
			fmt.Printf("BOUNDED %s: %d evaluations (%d non-trivial), %d failing, %.1fs; bound: %s\n", br.Name, br.Evaluations, br.Distinct, len(br.Failures), br.WallS, br.Bound)
			seenFinding := map[string]bool{}
			for i, f := range br.Failures {
				if f.Finding != "" {
					var kfm *KnownFinding
					for j := range known.Findings {
						if known.Findings[j].ID == f.Finding && !*noKnown {
							kfm = &known.Findings[j]
						}
					}
					if kfm != nil {
						if !seenFinding[f.Finding] {
							seenFinding[f.Finding] = true
							nKnown++
							knownLines = append(knownLines, oneLine(fmt.Sprintf("KNOWN-FINDING: property=%s bounded(%s) %s [e.g. %s: %s]", *prop, br.Name, kfm.What, f.Input, f.Why)))
						}
						continue
					}
				}
				nViol++
				os.MkdirAll(replayDir, 0o755)
				rp := filepath.Join(replayDir, fmt.Sprintf("bounded_%s_%d.json", br.Name, i+1))
				data, _ := json.MarshalIndent(map[string]interface{}{"property": *prop, "bounded": br.Name, "bound": br.Bound, "failing_input": f.Input, "why": f.Why,
					"how_to_rerun": fmt.Sprintf("inject %s as %s into the package and run go test -run %s", "/verif/bounded/*.go.txt", "its header's file=", "its header's run=")}, "", " ")
				os.WriteFile(rp, data, 0o644)
				violLines = append(violLines, fmt.Sprintf("VIOLATION property=%s replay=%s", *prop, rp))
			}
		}
	}

	printReport(rep, false)
	for _, l := range knownLines {
		fmt.Println(l)
	}
	for _, l := range violLines {
		fmt.Println(l)
	}

	// evidence
	var samples []interface{}
	for _, o := range rep.Obligs {
		if o.Status == "discharged" && o.Sample != "" && len(samples) < 4 {
			samples = append(samples, map[string]string{"obligation": o.Name, "kind": o.Kind, "clause": o.Text, "source": o.Pos, "smt_goal": o.Sample})
		}
	}
	var fnames []string
	absSet := map[string]bool{}
	for _, f := range rep.Functions {
		fnames = append(fnames, f.Display)
		for _, n := range f.Notes {
			absSet[f.Display+": "+n] = true
		}
	}
	assumptions = append(assumptions,
		"integers are mathematical (SMT Int); inputs assumed within their Go type's range; overflow obligations only where a contract asks for them (opt overflow=checked)",
		"go/ssa (x/tools v0.29.0, naive form) and go/types represent the program the gc compiler builds; z3 4.8.12 / z3 5.1.0 / cvc5 1.0.3 are trusted for `unsat`",
		"sequential semantics: goroutines, channels, select are not modelled",
		"calls without a contract outside the package under verification havoc the heap and are assumed to return; calls into fmt/strings/strconv/bytes/regexp/reflect/unicode are assumed pure and total",
		"termination of recursive specification functions (define-fun-rec) is assumed, not checked",
	)
	assumptions = append(assumptions, sortedKeys(absSet)...)
	var trusted []string
	for _, t := range rep.Trusted {
		trusted = append(trusted, "assumed contract: "+t)
	}
	trusted = append(trusted, "solvers: z3-new 5.1.0 (live incremental), z3 4.8.12, cvc5 1.0.3", "golang.org/x/tools v0.29.0 go/ssa + go/types", "/verif/govc (this verifier)")
	level := "proof"
	bEvals, bDistinct := 0, 0
	var bSamples []interface{}
	var bRules []string
	for _, br := range boundedResults {
		bEvals += br.Evaluations
		bDistinct += br.Distinct
		bSamples = append(bSamples, br.Samples...)
		bRules = append(bRules, br.Name+": "+br.Rule+" Bound: "+br.Bound)
	}
	if rep.Obligations == 0 && len(boundedResults) > 0 {
		level = "exploration"
	}
	if lv := levelOverride(*verif, *prop); lv != "" {
		level = lv
	}
	ev := Evidence{PropertyID: *prop, Tier: *tier, Seed: seed, Level: level, WallS: time.Since(t0).Seconds(), Violations: nViol, Assumptions: assumptions}
	ev.Coverage = map[string]interface{}{
		"obligations":              rep.Obligations,
		"discharged":               rep.Discharged,
		"checker_cmd":              fmt.Sprintf("/verif/bin/govc check -prop %s -tier %s (go/ssa -> SMT-LIB; z3-new -in live session per function, z3/z3-new/cvc5 race for the rest)", *prop, *tier),
		"trusted_base":             trusted,
		"functions_under_contract": fnames,
		"path_instances":           rep.Instances,
		"queries_by_engine":        rep.ByEngine,
		"solver_ms_total":          rep.SolverMs,
		"solver_ms_max":            rep.SolverMaxMs,
		"known_findings_open":      nKnown,
		"unbound_contracts":        rep.Unbound,
		"contract_files":           rep.Files,
		"samples":                  samples,
		"obligation_list":          compactObligs(rep.Obligs),
		"functions":                rep.Functions,
	}
	if len(boundedResults) > 0 {
		ev.Coverage["bounded_parts"] = boundedResults
		ev.Coverage["bounded_note"] = "bounded stand-ins: finite enumeration against the real function; NOT part of obligations/discharged"
		ev.Coverage["evaluations"] = bEvals
		ev.Coverage["distinct_nontrivial"] = bDistinct
		ev.Coverage["rule"] = strings.Join(bRules, " | ")
		if level != "proof" {
			ev.Coverage["samples"] = append(bSamples, samples...)
		}
	}
	evPath := filepath.Join(*verif, "evidence", *prop+".json")
	os.MkdirAll(filepath.Dir(evPath), 0o755)
	data, _ := json.MarshalIndent(ev, "", " ")
	os.WriteFile(evPath, data, 0o644)

	if rep.Obligations == 0 && bEvals == 0 {
		fmt.Println("no obligations generated for", *prop, "- cannot decide (vacuity guard)")
		return 2
	}
	if nViol > 0 {
		return 1
	}
	return 0
}

func compactObligs(os []ObligReport) []map[string]interface{} {
	var out []map[string]interface{}
	for _, o := range os {
		out = append(out, map[string]interface{}{"name": o.Name, "kind": o.Kind, "status": o.Status, "path_instances": o.Instances, "engines": o.Engines, "solver_ms": o.Ms, "clause": o.Text, "source": o.Pos})
	}
	return out
}

var _ = strings.TrimSpace

// levelOverride: /verif/levels.json may pin the evidence level of a property
// whose deciding part is a bounded stand-in.
func levelOverride(verif, prop string) string {
	data, err := os.ReadFile(filepath.Join(verif, "levels.json"))
	if err != nil {
		return ""
	}
	m := map[string]string{}
	if json.Unmarshal(data, &m) != nil {
		return ""
	}
	return m[prop]
}

func oneLine(s string) string {
	return strings.Join(strings.Fields(s), " ")
}
