package main

// Evaluation of contract expressions (Go expression syntax + implies_/iff_/
// forall_/exists_/old/result) into symbolic values over a given state.

import (
	"fmt"
	"go/ast"
	"go/constant"
	"go/token"
	"go/types"
	"golang.org/x/tools/go/ssa"
	"os"
	"strconv"
	"strings"
	"sync"
)

type NilV struct{}

func (NilV) isVal() {}

type evalError struct{ msg string }

func evalFail(format string, a ...interface{}) {
	panic(evalError{fmt.Sprintf(format, a...)})
}

type Env struct {
	x      *Exec
	st     *State
	old    *Env
	vars   map[string]Val
	fr     *Frame    // optional: resolve locals through cells
	pos    token.Pos // scope position for local lookup
	pkg    *types.Package
	spec   bool // evaluating a spec function body (no heap access)
	qdepth int  // > 0 inside a quantifier body (bound variables in scope)
	noinst bool
}

func (e *Env) with(name string, v Val) *Env {
	n := *e
	n.vars = map[string]Val{}
	for k, vv := range e.vars {
		n.vars[k] = vv
	}
	n.vars[name] = v
	return &n
}

func (e *Env) evalBool(ex ast.Expr) string {
	v := e.eval(ex)
	b, ok := v.(Bool)
	if !ok {
		evalFail("expected bool, got %T in %s", v, exprString(ex))
	}
	return b.T
}

func (e *Env) evalInt(ex ast.Expr) string {
	v := e.eval(ex)
	switch i := v.(type) {
	case Int:
		return i.T
	}
	evalFail("expected int, got %T in %s", v, exprString(ex))
	return ""
}

func exprString(ex ast.Expr) string {
	return types.ExprString(ex)
}

func (e *Env) lookup(name string) (Val, bool) {
	if v, ok := e.vars[name]; ok {
		return v, true
	}
	// param0, param1, ...: the parameters by position (receiver first), so that a contract survives the
	// renaming of a parameter
	if strings.HasPrefix(name, "param") && e.fr != nil {
		if i, err := strconv.Atoi(name[5:]); err == nil {
			fn := e.fr.fn
			if e.x != nil && e.fr.parent == nil && e.x.top != nil {
				fn = e.x.top
			}
			if i >= 0 && i < len(fn.Params) {
				return e.lookup(fn.Params[i].Name())
			}
			return nil, false
		}
	}
	switch name {
	case "true":
		return Bool{"true"}, true
	case "false":
		return Bool{"false"}, true
	case "nil":
		return NilV{}, true
	}
	if (e.fr == nil || e.fr.parent == nil) && e.x.freeCells != nil {
		if c := e.x.freeCells[name]; c != nil {
			if v, ok := e.st.cellv[c]; ok {
				return v, true
			}
		}
	}
	if e.fr != nil {
		if c := e.fr.cellByName(name, e.pos); c != nil {
			if v, ok := e.st.cellv[c]; ok {
				return v, true
			}
		}
		// a local that is in scope but whose declaration has not executed on
		// this path yet has its zero value
		if e.fr.fn.Pkg != nil && e.pos.IsValid() {
			if sc := e.fr.fn.Pkg.Pkg.Scope().Innermost(e.pos); sc != nil {
				if _, obj := sc.LookupParent(name, e.pos); obj != nil {
					if _, isVar := obj.(*types.Var); isVar && obj.Parent() != e.fr.fn.Pkg.Pkg.Scope() {
						a := allocFor(e.fr.fn, obj)
						if os.Getenv("GOVC_DEBUG") != "" {
							fmt.Fprintf(os.Stderr, "  lookup %s: obj=%v alloc=%v hascell=%v\n", name, obj.Pos(), a != nil, a != nil && e.fr.cells[a] != nil)
						}
						if a != nil {
							c := e.fr.cells[a]
							if _, live := e.st.cellv[c]; c == nil || !live {
								return zeroVal(obj.Type()), true
							}
						}
					}
				}
			}
		}
	}
	if e.pkg != nil {
		if obj := e.pkg.Scope().Lookup(name); obj != nil {
			if c, ok := obj.(*types.Const); ok {
				return constVal(c.Val(), c.Type()), true
			}
			// a package-level variable: its current value (the same load the code performs)
			if _, isVar := obj.(*types.Var); isVar && e.x != nil && e.st != nil {
				if sp := e.x.eng.prog.Package(e.pkg); sp != nil {
					if g, ok := sp.Members[name].(*ssa.Global); ok {
						gp := Ptr{Ref: strconv.Itoa(e.x.eng.globalID(g)), Elem: g.Type().(*types.Pointer).Elem()}
						return e.x.loadPtr(e.st, gp, nil, false), true
					}
				}
			}
		}
	}
	return nil, false
}

func constVal(v constant.Value, t types.Type) Val {
	switch v.Kind() {
	case constant.Bool:
		if constant.BoolVal(v) {
			return Bool{"true"}
		}
		return Bool{"false"}
	case constant.Int:
		if b, ok := t.Underlying().(*types.Basic); ok && b.Info()&types.IsFloat != 0 {
			f, _ := constant.Float64Val(v)
			return fltConst(f, b.Kind() == types.Float32)
		}
		s := v.ExactString()
		if strings.HasPrefix(s, "-") {
			return Int{"(- " + s[1:] + ")"}
		}
		return Int{s}
	case constant.Float:
		f, _ := constant.Float64Val(v)
		is32 := false
		if b, ok := t.Underlying().(*types.Basic); ok && b.Kind() == types.Float32 {
			is32 = true
		}
		if b, ok := t.Underlying().(*types.Basic); ok && b.Info()&types.IsInteger != 0 {
			i, _ := constant.Int64Val(constant.ToInt(v))
			return Int{sInt(i)}
		}
		return fltConst(f, is32)
	case constant.String:
		return strLit(constant.StringVal(v))
	}
	return Opaque{Typ: t, T: "0"}
}

func fltConst(f float64, is32 bool) Val {
	// exact via bits
	if is32 {
		bits := float32bits(float32(f))
		return Flt{fmt.Sprintf("((_ to_fp 8 24) #x%08x)", bits), 32}
	}
	bits := float64bits(f)
	return Flt{fmt.Sprintf("((_ to_fp 11 53) #x%016x)", bits), 64}
}

// litContent: the text of every string literal term, so that two literals are compared by content
var litContent sync.Map

// string literals are self-describing array terms (no declarations needed).
func strLit(s string) Val {
	if s == "" {
		return Str{"emptybase", "0", "0"}
	}
	t := "((as const (Array Int Int)) 0)"
	for i := 0; i < len(s); i++ {
		t = "(store " + t + " " + strconv.Itoa(i) + " " + strconv.Itoa(int(s[i])) + ")"
	}
	litContent.Store(t, s)
	return Str{t, "0", strconv.Itoa(len(s))}
}

func (e *Env) eval(ex ast.Expr) Val {
	switch n := ex.(type) {
	case *ast.ParenExpr:
		return e.eval(n.X)
	case *ast.BasicLit:
		switch n.Kind {
		case token.INT:
			v, err := strconv.ParseInt(n.Value, 0, 64)
			if err != nil {
				// big literal
				return Int{n.Value}
			}
			return Int{sInt(v)}
		case token.CHAR:
			r, _, _, err := strconv.UnquoteChar(n.Value[1:len(n.Value)-1], '\'')
			if err != nil {
				evalFail("bad char literal %s", n.Value)
			}
			return Int{sInt(int64(r))}
		case token.STRING:
			s, err := strconv.Unquote(n.Value)
			if err != nil {
				evalFail("bad string literal %s", n.Value)
			}
			return strLit(s)
		case token.FLOAT:
			f, _ := strconv.ParseFloat(n.Value, 64)
			return fltConst(f, false)
		}
	case *ast.Ident:
		if v, ok := e.lookup(n.Name); ok {
			return v
		}
		evalFail("unbound name %q", n.Name)
	case *ast.UnaryExpr:
		switch n.Op {
		case token.NOT:
			return Bool{sNot(e.evalBool(n.X))}
		case token.AND:
			// &p.f : address of a field of a heap object
			if sel, ok := n.X.(*ast.SelectorExpr); ok {
				base := e.eval(sel.X)
				if p, ok := base.(Ptr); ok && p.Cell == nil && p.Arr == "" {
					if st, ok := p.Elem.Underlying().(*types.Struct); ok {
						for i := 0; i < st.NumFields(); i++ {
							if st.Field(i).Name() == sel.Sel.Name {
								return Ptr{Ref: p.Ref, Path: append(append([]int{}, p.Path...), i), Elem: p.Elem}
							}
						}
					}
				}
			}
			evalFail("unsupported address-of in contract: %s", exprString(n))
		case token.SUB:
			v := e.eval(n.X)
			if f, ok := v.(Flt); ok {
				return Flt{"(fp.neg " + f.T + ")", f.Bits}
			}
			return Int{"(- " + e.evalInt(n.X) + ")"}
		}
	case *ast.StarExpr:
		v := e.eval(n.X)
		if p, ok := v.(Ptr); ok {
			return e.x.loadPtr(e.st, p, nil, false)
		}
		evalFail("deref of %T", v)
	case *ast.BinaryExpr:
		return e.evalBinary(n)
	case *ast.SelectorExpr:
		// pkg.Const ?
		if id, ok := n.X.(*ast.Ident); ok {
			if _, bound := e.lookup(id.Name); !bound {
				if v, ok := e.x.eng.lookupQualified(e.pkg, id.Name, n.Sel.Name); ok {
					return v
				}
				evalFail("unbound name %q", id.Name)
			}
		}
		v := e.eval(n.X)
		return e.selectField(v, n.Sel.Name)
	case *ast.IndexExpr:
		v := e.eval(n.X)
		switch s := v.(type) {
		case Slice:
			i := e.evalInt(n.Index)
			if e.spec {
				evalFail("slice index in spec")
			}
			return e.x.loadElemPure(e.st, s.Arr, sApp("+", s.Off, i), s.Elem)
		case Str:
			i := e.evalInt(n.Index)
			return Int{"(select " + s.Base + " (+ " + s.Off + " " + i + "))"}
		case MapV:
			k := e.eval(n.Index)
			return e.x.mapLoad(e.st, s, k)
		}
		evalFail("index of %T", v)
	case *ast.SliceExpr:
		v := e.eval(n.X)
		lo := "0"
		if n.Low != nil {
			lo = e.evalInt(n.Low)
		}
		switch s := v.(type) {
		case Slice:
			hi := s.Len
			if n.High != nil {
				hi = e.evalInt(n.High)
			}
			return Slice{s.Arr, sApp("+", s.Off, lo), sApp("-", hi, lo), sApp("-", s.Cap, lo), s.Elem}
		case Str:
			hi := s.Len
			if n.High != nil {
				hi = e.evalInt(n.High)
			}
			return Str{s.Base, sApp("+", s.Off, lo), sApp("-", hi, lo)}
		}
		evalFail("slice of %T", v)
	case *ast.CallExpr:
		return e.evalCall(n)
	}
	evalFail("unsupported contract expression %s (%T)", exprString(ex), ex)
	return nil
}

func (e *Env) selectField(v Val, name string) Val {
	switch s := v.(type) {
	case Struct:
		st := s.Typ.Underlying().(*types.Struct)
		for i := 0; i < st.NumFields(); i++ {
			if st.Field(i).Name() == name {
				return s.F[i]
			}
		}
		// embedded promotion (one level)
		for i := 0; i < st.NumFields(); i++ {
			if st.Field(i).Embedded() {
				if sub, ok := s.F[i].(Struct); ok {
					if r := e.trySelect(sub, name); r != nil {
						return r
					}
				}
			}
		}
		evalFail("no field %s in %s", name, typeKey(s.Typ))
	case Ptr:
		if s.Cell != nil {
			cv := e.x.loadPtr(e.st, s, nil, false)
			return e.selectField(cv, name)
		}
		st, ok := s.Elem.Underlying().(*types.Struct)
		if !ok {
			evalFail("field %s of pointer to non-struct", name)
		}
		for i := 0; i < st.NumFields(); i++ {
			if st.Field(i).Name() == name {
				np := Ptr{Ref: s.Ref, Path: append(append([]int{}, s.Path...), i), Elem: s.Elem}
				return e.x.loadPtr(e.st, np, st.Field(i).Type(), false)
			}
		}
		evalFail("no field %s in %s", name, typeKey(s.Elem))
	}
	evalFail("selector .%s on %T", name, v)
	return nil
}

func (e *Env) trySelect(s Struct, name string) (r Val) {
	defer func() {
		if x := recover(); x != nil {
			if _, ok := x.(evalError); ok {
				r = nil
				return
			}
			panic(x)
		}
	}()
	return e.selectField(s, name)
}

func (e *Env) evalBinary(n *ast.BinaryExpr) Val {
	switch n.Op {
	case token.LAND:
		a := e.evalBool(n.X)
		if v, ok := groundBool(a); ok && !v {
			return Bool{"false"} // short circuit: the right operand may be undefined here
		}
		return Bool{sAnd(a, e.evalBool(n.Y))}
	case token.LOR:
		a := e.evalBool(n.X)
		if v, ok := groundBool(a); ok && v {
			return Bool{"true"}
		}
		return Bool{sOr(a, e.evalBool(n.Y))}
	}
	a, b := e.eval(n.X), e.eval(n.Y)
	return binop(n.Op, a, b, exprString(n))
}

func nilOf(v Val) Val {
	switch x := v.(type) {
	case Ptr:
		return Ptr{Ref: "0", Elem: x.Elem}
	case Slice:
		return Slice{"0", "0", "0", "0", x.Elem}
	case Iface:
		return Iface{"0", "0"}
	case Func:
		return Func{T: "0"}
	case MapV:
		return MapV{"0", x.Key, x.Elt}
	case Opaque:
		return Opaque{x.Typ, "0"}
	}
	return v
}

var gEng *Engine

// boxIfNeeded: comparing an interface value with a concrete pointer boxes the pointer.
func boxIfNeeded(a, b Val) (Val, Val) {
	if _, ok := a.(Iface); ok {
		if p, ok := b.(Ptr); ok && p.Cell == nil && p.Arr == "" && len(p.Path) == 0 && p.Elem != nil && gEng != nil {
			id := gEng.typeID(types.NewPointer(p.Elem))
			b = Iface{sIte("(= "+p.Ref+" 0)", strconv.Itoa(id), strconv.Itoa(id)), p.Ref}
		}
	}
	return a, b
}

func binop(op token.Token, a, b Val, ctx string) Val {
	if _, ok := a.(NilV); ok {
		a = nilOf(b)
	}
	if _, ok := b.(NilV); ok {
		b = nilOf(a)
	}
	a, b = boxIfNeeded(a, b)
	b, a = boxIfNeeded(b, a)
	switch op {
	case token.EQL, token.NEQ:
		// comparing an interface with a concrete value is not supported in contracts
		c, ok := valEqual(a, b)
		if !ok {
			evalFail("cannot compare %T and %T in %s", a, b, ctx)
		}
		if op == token.NEQ {
			c = sNot(c)
		}
		return Bool{c}
	}
	if fa, ok := a.(Flt); ok {
		fb, ok := b.(Flt)
		if !ok {
			evalFail("float op with %T in %s", b, ctx)
		}
		switch op {
		case token.LSS:
			return Bool{"(fp.lt " + fa.T + " " + fb.T + ")"}
		case token.LEQ:
			return Bool{"(fp.leq " + fa.T + " " + fb.T + ")"}
		case token.GTR:
			return Bool{"(fp.gt " + fa.T + " " + fb.T + ")"}
		case token.GEQ:
			return Bool{"(fp.geq " + fa.T + " " + fb.T + ")"}
		case token.ADD:
			return Flt{"(fp.add RNE " + fa.T + " " + fb.T + ")", fa.Bits}
		case token.SUB:
			return Flt{"(fp.sub RNE " + fa.T + " " + fb.T + ")", fa.Bits}
		case token.MUL:
			return Flt{"(fp.mul RNE " + fa.T + " " + fb.T + ")", fa.Bits}
		case token.QUO:
			return Flt{"(fp.div RNE " + fa.T + " " + fb.T + ")", fa.Bits}
		}
		evalFail("float op %s in %s", op, ctx)
	}
	if sa, ok := a.(Str); ok {
		if sb, ok := b.(Str); ok {
			if c, ok := strOrder(op, sa, sb); ok {
				return Bool{c}
			}
		}
		if sb, ok := b.(Str); ok && op == token.ADD {
			_ = sa
			_ = sb
			evalFail("string concatenation not supported in contracts: %s", ctx)
		}
	}
	ia, ok1 := a.(Int)
	ib, ok2 := b.(Int)
	if !ok1 || !ok2 {
		evalFail("operator %s on %T,%T in %s", op, a, b, ctx)
	}
	switch op {
	case token.LSS:
		return Bool{"(< " + ia.T + " " + ib.T + ")"}
	case token.LEQ:
		return Bool{"(<= " + ia.T + " " + ib.T + ")"}
	case token.GTR:
		return Bool{"(> " + ia.T + " " + ib.T + ")"}
	case token.GEQ:
		return Bool{"(>= " + ia.T + " " + ib.T + ")"}
	case token.ADD:
		return Int{"(+ " + ia.T + " " + ib.T + ")"}
	case token.SUB:
		return Int{"(- " + ia.T + " " + ib.T + ")"}
	case token.MUL:
		return Int{"(* " + ia.T + " " + ib.T + ")"}
	case token.QUO:
		return Int{"(godiv " + ia.T + " " + ib.T + ")"}
	case token.REM:
		return Int{"(gomod " + ia.T + " " + ib.T + ")"}
	}
	evalFail("operator %s unsupported in %s", op, ctx)
	return nil
}

func (e *Env) evalCall(n *ast.CallExpr) Val {
	fname := ""
	switch f := n.Fun.(type) {
	case *ast.Ident:
		fname = f.Name
	case *ast.SelectorExpr:
		if id, ok := f.X.(*ast.Ident); ok {
			fname = id.Name + "." + f.Sel.Name
		}
	case *ast.ArrayType:
		// []byte(x)
		if len(n.Args) == 1 {
			v := e.eval(n.Args[0])
			if s, ok := v.(Str); ok {
				return s // contracts treat []byte(string) as the same sequence
			}
			return v
		}
	}
	switch fname {
	case "implies_":
		a := e.evalBool(n.Args[0])
		if v, ok := groundBool(a); ok && !v {
			return Bool{"true"} // short circuit: the consequent may be undefined here
		}
		return Bool{sImp(a, e.evalBool(n.Args[1]))}
	case "iff_":
		return Bool{sEq(e.evalBool(n.Args[0]), e.evalBool(n.Args[1]))}
	case "forall_", "exists_":
		id, ok := n.Args[0].(*ast.Ident)
		if !ok {
			evalFail("quantifier variable must be an identifier")
		}
		qvCounter++
		q := fmt.Sprintf("%s!%d", id.Name, qvCounter)
		lo, hi := e.evalInt(n.Args[1]), e.evalInt(n.Args[2])
		qe := e.with(id.Name, Int{q})
		qe.qdepth++
		body := qe.evalBool(n.Args[3])
		rng := "(and (<= " + lo + " " + q + ") (< " + q + " " + hi + "))"
		if fname == "forall_" {
			return Bool{"(forall ((" + q + " Int)) (=> " + rng + " " + body + "))"}
		}
		return Bool{"(exists ((" + q + " Int)) (and " + rng + " " + body + "))"}
	case "atloop", "heapatloop":
		// atloop(n, e): value of e at the head of the current iteration of loop n
		// heapatloop(n, e): e evaluated with the current locals (e.g. the range variables of this
		// iteration) in the heap as it was at the head of the current iteration of loop n
		lit, ok := n.Args[0].(*ast.BasicLit)
		if !ok || e.fr == nil {
			evalFail("atloop(n, e) needs a literal loop ordinal")
		}
		ord, _ := strconv.Atoi(lit.Value)
		for key, ol := range e.st.open {
			if key.frame == e.fr.id && ol.snap != nil {
				if lp := e.fr.loops.byHead[key.head]; lp != nil && lp.ordinal == ord {
					ne := *e
					if fname == "heapatloop" {
						hs := ol.snap.clone()
						hs.cellv = e.st.cellv
						ne.st = hs
					} else {
						ne.st = ol.snap
					}
					return ne.eval(n.Args[1])
				}
			}
		}
		evalFail("atloop(%d, ...): loop %d is not open here", ord, ord)
	case "exitedloop":
		// exitedloop(n): loop n was left through its normal exit (all its elements were processed); false while
		// inside an iteration, so "at return: assert result ==> exitedloop(1)" says that a positive answer is
		// only given after the whole loop, never from inside an iteration
		lit, ok := n.Args[0].(*ast.BasicLit)
		if !ok || e.fr == nil {
			evalFail("exitedloop(n) needs a literal loop ordinal")
		}
		ord, _ := strconv.Atoi(lit.Value)
		for key, ol := range e.st.open {
			if key.frame == e.fr.id {
				if lp := e.fr.loops.byHead[key.head]; lp != nil && lp.ordinal == ord && ol.exited {
					return Bool{"true"}
				}
			}
		}
		return Bool{"false"}
	case "visitedloop":
		// visitedloop(n): the head of loop n was reached on this path (since the enclosing iteration began)
		lit, ok := n.Args[0].(*ast.BasicLit)
		if !ok || e.fr == nil {
			evalFail("visitedloop(n) needs a literal loop ordinal")
		}
		ord, _ := strconv.Atoi(lit.Value)
		for key := range e.st.open {
			if key.frame == e.fr.id {
				if lp := e.fr.loops.byHead[key.head]; lp != nil && lp.ordinal == ord {
					return Bool{"true"}
				}
			}
		}
		return Bool{"false"}
	case "calls":
		// calls("name"): how many calls to the callee of that source-level name happened on this path
		lit, ok := n.Args[0].(*ast.BasicLit)
		if !ok {
			evalFail("calls needs a string literal")
		}
		name, _ := strconv.Unquote(lit.Value)
		return Int{strconv.Itoa(e.st.calls[name])}
	case "returns":
		// returns("name"): how many calls to that callee have returned normally on this path (calls that
		// exited by panic are counted by calls() only)
		lit, ok := n.Args[0].(*ast.BasicLit)
		if !ok {
			evalFail("returns needs a string literal")
		}
		name, _ := strconv.Unquote(lit.Value)
		return Int{strconv.Itoa(e.st.rets[name])}
	case "lastresult":
		// lastresult("name"): first result of the most recent returned call to that source-level callee
		lit, ok := n.Args[0].(*ast.BasicLit)
		if !ok {
			evalFail("lastresult needs a string literal")
		}
		name, _ := strconv.Unquote(lit.Value)
		if len(n.Args) == 2 {
			// lastresult("name", k): the k-th result (0-based) of that call
			if kl, ok := n.Args[1].(*ast.BasicLit); ok && kl.Value != "0" {
				name += "#" + kl.Value
			}
		}
		if v, ok := e.st.lastRes[name]; ok {
			return v
		}
		evalFail("lastresult(%q): no such call has returned on this path", name)
	case "deferred":
		if e.fr == nil {
			evalFail("deferred() outside a function body")
		}
		return Int{strconv.Itoa(len(e.st.defers[e.fr.id]))}
	case "old":
		if e.old == nil {
			return e.eval(n.Args[0])
		}
		// quantifier-bound variables stay visible inside old(...)
		oe := *e.old
		oe.vars = map[string]Val{}
		for k, v := range e.vars {
			oe.vars[k] = v
		}
		for k, v := range e.old.vars {
			oe.vars[k] = v
		}
		return oe.eval(n.Args[0])
	case "len":
		v := e.eval(n.Args[0])
		switch s := v.(type) {
		case Slice:
			return Int{s.Len}
		case Str:
			return Int{s.Len}
		case MapV:
			return Int{e.x.mapLen(e.st, s)}
		}
		evalFail("len of %T", v)
	case "cap":
		v := e.eval(n.Args[0])
		if s, ok := v.(Slice); ok {
			return Int{s.Cap}
		}
		evalFail("cap of %T", v)
	case "int", "int32", "int64", "rune", "byte", "uint8", "uint", "uint32", "uint64", "int8", "int16", "uint16":
		v := e.eval(n.Args[0])
		switch i := v.(type) {
		case Int:
			return i
		case Opaque:
			return Int{i.T}
		}
		evalFail("conversion %s of %T", fname, v)
	case "string":
		v := e.eval(n.Args[0])
		switch s := v.(type) {
		case Str:
			return s
		case Slice:
			return e.x.sliceToStr(e.st, s)
		}
		evalFail("string() of %T", v)
	case "typeis":
		// typeis(x, "pkg.T") : dynamic type test on an interface value
		v := e.eval(n.Args[0])
		iv, ok := v.(Iface)
		lit, ok2 := n.Args[1].(*ast.BasicLit)
		if !ok || !ok2 {
			evalFail("typeis needs interface value and string literal")
		}
		name, _ := strconv.Unquote(lit.Value)
		id := e.x.eng.typeIDByName(name)
		if strings.HasPrefix(name, "*") || strings.HasPrefix(name, "map[") || strings.HasPrefix(name, "func(") {
			// a true ground fact of the model: pointers, maps and functions are boxed by identity, so
			// == on two interface values of this dynamic type is equality of representation
			e.x.assume("(identityboxed " + strconv.Itoa(id) + ")")
		}
		return Bool{sEq(iv.Tag, strconv.Itoa(id))}
	case "intval":
		// integer payload of an interface value (meaningful when its dynamic type is an integer type)
		v := e.eval(n.Args[0])
		switch y := v.(type) {
		case Iface:
			return Int{y.Pay}
		case Int:
			return y
		}
		evalFail("intval of %T", v)
	case "boolval":
		v := e.eval(n.Args[0])
		if y, ok := v.(Iface); ok {
			return Bool{"(= " + y.Pay + " 1)"}
		}
		evalFail("boolval of %T", v)
	case "f64", "f32":
		v := e.eval(n.Args[0])
		switch y := v.(type) {
		case Iface:
			if fname == "f64" {
				return e.x.unbox(y, types.Typ[types.Float64])
			}
			return e.x.unbox(y, types.Typ[types.Float32])
		case Flt:
			return y
		case Int:
			if fname == "f64" {
				return Flt{"((_ to_fp 11 53) RNE (to_real " + y.T + "))", 64}
			}
			return Flt{"((_ to_fp 8 24) RNE (to_real " + y.T + "))", 32}
		}
		evalFail("%s of %T", fname, v)
	case "strval":
		v := e.eval(n.Args[0])
		if y, ok := v.(Iface); ok {
			return e.x.unbox(y, types.Typ[types.String])
		}
		evalFail("strval of %T", v)
	case "as":
		// as(x, "*pkg.T"): the value of interface x viewed as the named concrete type
		v := e.eval(n.Args[0])
		iv, ok := v.(Iface)
		lit, ok2 := n.Args[1].(*ast.BasicLit)
		if !ok || !ok2 {
			evalFail("as needs an interface value and a type name literal")
		}
		name, _ := strconv.Unquote(lit.Value)
		t := e.x.eng.typeByName(name)
		if t == nil {
			evalFail("as: unknown type %q", name)
		}
		return e.x.unbox(iv, t)
	case "sortedflag":
		// sortedflag(s): ghost — sort.Strings/Ints was applied to this slice's array
		v := e.eval(n.Args[0])
		sl, ok := v.(Slice)
		if !ok {
			evalFail("sortedflag of %T", v)
		}
		return Bool{"(select " + e.x.ghostArr(e.st, "sorted") + " " + sl.Arr + ")"}
	case "held":
		// held(&mu): ghost lock state
		v := e.eval(n.Args[0])
		p, ok := v.(Ptr)
		if !ok {
			evalFail("held needs a pointer to a mutex")
		}
		return Bool{"(select " + e.x.heldArr(e.st) + " " + ptrTerm(p) + ")"}
	case "has":
		// has(m, k): key k is present in map m
		v := e.eval(n.Args[0])
		m, ok := v.(MapV)
		if !ok {
			evalFail("has of %T", v)
		}
		return Bool{e.x.mapHas(e.st, m, e.eval(n.Args[1]))}
	case "mapkept":
		// mapkept(m): every key present in m at function entry is still present, with the same value (for a map
		// to bool, used as a set: every member at entry is still a member)
		// (entries are only ever added): forall k. old(has(m,k)) ==> has(m,k) && m[k] == old(m[k])
		if e.old == nil {
			return Bool{"true"}
		}
		vn, ok1 := e.eval(n.Args[0]).(MapV)
		vo, ok2 := e.old.eval(n.Args[0]).(MapV)
		if !ok1 || !ok2 {
			evalFail("mapkept needs a map")
		}
		q := smtSym(e.x.fresh("mk", "Int"))
		key := Opaque{Typ: vn.Key, T: q}
		hasOld := e.x.mapHas(e.old.st, vo, key)
		hasNew := e.x.mapHas(e.st, vn, key)
		nv, ov := e.x.mapLoad(e.st, vn, key), e.x.mapLoad(e.old.st, vo, key)
		if nb, ok := nv.(Bool); ok {
			// a set (map to bool): members stay members
			return Bool{"(forall ((" + q + " Int)) (=> (and " + hasOld + " " + ov.(Bool).T + ") (and " + hasNew + " " + nb.T + ")))"}
		}
		eq, ok := valEqual(nv, ov)
		if !ok {
			evalFail("mapkept: values of this map type cannot be compared")
		}
		return Bool{"(forall ((" + q + " Int)) (=> " + hasOld + " (and " + hasNew + " " + eq + ")))"}
	case "identity":
		// identity(v): the dynamic type of the interface value v is compared by identity (pointer, integer,
		// bool, map, func ...), so == on it is exactly equality of representation
		if iv, ok := e.eval(n.Args[0]).(Iface); ok {
			return Bool{"(identityboxed " + iv.Tag + ")"}
		}
		evalFail("identity needs an interface value")
	case "isnil":
		v := e.eval(n.Args[0])
		c, ok := valEqual(v, nilOf(v))
		if !ok {
			evalFail("isnil of %T", v)
		}
		return Bool{c}
	case "fresh":
		v := e.eval(n.Args[0])
		switch p := v.(type) {
		case Ptr:
			if p.Cell != nil {
				return Bool{"true"}
			}
			return Bool{"(>= " + p.Ref + " " + e.x.entryAllocW + ")"}
		case Slice:
			return Bool{"(>= " + p.Arr + " " + e.x.entryAllocW + ")"}
		case MapV:
			return Bool{"(>= " + p.Ref + " " + e.x.entryAllocW + ")"}
		}
		evalFail("fresh of %T", v)
	}
	// result of a functional (pure, deterministic) repository function: f_res(args)
	if v, ok := e.functionalRef(fname, n.Args); ok {
		return v
	}
	// spec function?
	if sf := e.x.eng.contracts.Specs[fname]; sf != nil {
		e.x.useSpec(sf)
		var args []string
		for _, a := range n.Args {
			v := e.eval(a)
			if s, ok := v.(Slice); ok {
				v = e.x.sliceToStr(e.st, s)
			}
			args = append(args, flatten(v)...)
		}
		app := sApp(smtSym("spec."+sf.Name), args...)
		return specResult(sf, app)
	}
	evalFail("unknown function %q in contract", fname)
	return nil
}

func specResult(sf *SpecFunc, app string) Val {
	if sf.Decl.Type.Results != nil && len(sf.Decl.Type.Results.List) == 1 {
		if id, ok := sf.Decl.Type.Results.List[0].Type.(*ast.Ident); ok && id.Name == "bool" {
			return Bool{app}
		}
	}
	return Int{app}
}

// ---- spec function compilation to SMT ----

func specParamSorts(sf *SpecFunc) (names []string, vals []Val, decl []string) {
	for _, f := range sf.Decl.Type.Params.List {
		for _, nm := range f.Names {
			switch t := f.Type.(type) {
			case *ast.Ident:
				if t.Name == "bool" {
					vals = append(vals, Bool{nm.Name})
					decl = append(decl, "("+nm.Name+" Bool)")
				} else if t.Name == "string" {
					vals = append(vals, Str{nm.Name + ".base", nm.Name + ".off", nm.Name + ".len"})
					decl = append(decl, "("+nm.Name+".base (Array Int Int))", "("+nm.Name+".off Int)", "("+nm.Name+".len Int)")
				} else {
					vals = append(vals, Int{nm.Name})
					decl = append(decl, "("+nm.Name+" Int)")
				}
			case *ast.ArrayType:
				vals = append(vals, Str{nm.Name + ".base", nm.Name + ".off", nm.Name + ".len"})
				decl = append(decl, "("+nm.Name+".base (Array Int Int))", "("+nm.Name+".off Int)", "("+nm.Name+".len Int)")
			default:
				vals = append(vals, Int{nm.Name})
				decl = append(decl, "("+nm.Name+" Int)")
			}
			names = append(names, nm.Name)
		}
	}
	return
}

// specBodyTerm translates { if c { return a }; ...; return z } to nested ite.
func (e *Env) specStmts(stmts []ast.Stmt) Val {
	if len(stmts) == 0 {
		evalFail("spec function body falls off the end")
	}
	switch s := stmts[0].(type) {
	case *ast.ReturnStmt:
		return e.eval(s.Results[0])
	case *ast.AssignStmt:
		if id, ok := s.Lhs[0].(*ast.Ident); ok && len(s.Lhs) == 1 && len(s.Rhs) == 1 {
			return e.with(id.Name, e.eval(s.Rhs[0])).specStmts(stmts[1:])
		}
		evalFail("unsupported assignment in spec function")
	case *ast.IfStmt:
		c := e.evalBool(s.Cond)
		thenV := e.specStmts(s.Body.List)
		var elseV Val
		if s.Else != nil {
			switch el := s.Else.(type) {
			case *ast.BlockStmt:
				elseV = e.specStmts(append(append([]ast.Stmt{}, el.List...), stmts[1:]...))
			case *ast.IfStmt:
				elseV = e.specStmts(append([]ast.Stmt{el}, stmts[1:]...))
			}
		} else {
			elseV = e.specStmts(stmts[1:])
		}
		return iteVal(c, thenV, elseV)
	}
	evalFail("unsupported statement in spec function")
	return nil
}

// functionalRef resolves "<func>_<result>" for functions whose contract is
// marked functional.
func (e *Env) functionalRef(fname string, argx []ast.Expr) (Val, bool) {
	idx := strings.LastIndex(fname, "_")
	if idx <= 0 {
		return nil, false
	}
	fkey, rname := fname[:idx], fname[idx+1:]
	var fc *FuncContract
	if e.pkg != nil {
		fc = e.x.eng.contracts.Funcs[ckey(e.pkg.Path(), fkey)]
	}
	if fc == nil {
		for _, c := range e.x.eng.contracts.Funcs {
			if c.Key == fkey && c.Functional {
				fc = c
			}
		}
	}
	if fc == nil || !fc.Functional {
		return nil, false
	}
	fn := e.x.eng.fnByKey[ckey(fc.Pkg, fc.Key)]
	if fn == nil {
		return nil, false
	}
	res := fn.Signature.Results()
	ri := -1
	for i := 0; i < res.Len(); i++ {
		if res.At(i).Name() == rname || strconv.Itoa(i) == rname {
			ri = i
		}
	}
	if ri < 0 {
		return nil, false
	}
	var args []Val
	for _, a := range argx {
		args = append(args, e.eval(a))
	}
	if !e.spec && e.qdepth == 0 && !e.noinst && e.x.sess != nil {
		e.x.assumeContractInstance(e, fc, fn, args)
	}
	return e.x.functionalResult(e.st, fc, fn.Signature, args, ri), true
}

// assumeContractInstance: the (verified) contract of a functional function,
// instantiated at ground arguments: requires ==> ensures[result := f(args)].
func (x *Exec) assumeContractInstance(e *Env, fc *FuncContract, fn *ssa.Function, args []Val) {
	key := fc.Key + "(" + strings.Join(x.functionalArgs(e.st, args), ",") + ")"
	if x.instDone == nil {
		x.instDone = map[string]int{}
	}
	if d, ok := x.instDone[key]; ok && d <= x.sess.Depth() {
		return
	}
	x.instDone[key] = x.sess.Depth()
	vars := map[string]Val{}
	for i, p := range fn.Params {
		if i < len(args) {
			vars[p.Name()] = args[i]
		}
	}
	res := fn.Signature.Results()
	for i := 0; i < res.Len(); i++ {
		v := x.functionalResult(e.st, fc, fn.Signature, args, i)
		if n := res.At(i).Name(); n != "" && n != "_" {
			vars[n] = v
		}
		vars[fmt.Sprintf("result%d", i)] = v
		if i == 0 {
			vars["result"] = v
		}
	}
	env := &Env{x: x, st: e.st, vars: vars, pkg: x.eng.typesPkg(fc.Pkg), noinst: true}
	env.old = env
	var reqs, ens []string
	for _, c := range fc.Requires {
		if g, err := x.evalClause(env, c); err == nil {
			reqs = append(reqs, g)
		} else {
			return
		}
	}
	for _, c := range fc.Ensures {
		if c.When == "panic" {
			continue
		}
		if g, err := x.evalClause(env, c); err == nil {
			ens = append(ens, g)
		}
	}
	x.assume(sImp(sAnd(reqs...), sAnd(ens...)))
}
