package main

import (
	"fmt"
	"go/ast"
	"go/types"
	"os"
	"sort"
	"strconv"
	"strings"
	"sync"
	"time"

	"golang.org/x/tools/go/ssa"
)

type FuncResult struct {
	Key       string
	Display   string
	Pkg       string
	Props     []string
	Obligs    []*Oblig
	Notes     []string
	Paths     int
	Returns   int
	Panics    int
	Capped    bool
	Vacuous   string
	WallMs    int64
	Error     string
	Trusted   bool
	Specs     []string
	Inputs    []string
	fn        *ssa.Function
	fc        *FuncContract
	dryLeaves []string
}

var basePreamble = []string{
	"(define-fun godiv ((a Int) (b Int)) Int (ite (>= a 0) (ite (> b 0) (div a b) (- (div a (- b)))) (ite (> b 0) (- (div (- a) b)) (div (- a) (- b)))))",
	"(define-fun gomod ((a Int) (b Int)) Int (- a (* b (godiv a b))))",
	"(declare-fun cellptr (Int Int) Int)",
	"(declare-fun elemptr (Int Int) Int)",
	"(declare-fun fieldptr (Int Int) Int)",
	"(declare-fun strkey ((Array Int Int) Int Int) Int)",
	"(declare-fun streq ((Array Int Int) Int Int (Array Int Int) Int Int) Bool)",
	"(declare-fun ifacekey (Int Int) Int)",
	"(declare-fun identityboxed (Int) Bool)",
	"(declare-fun cellcmp (Int) Bool)",
	"(declare-fun strlt ((Array Int Int) Int Int (Array Int Int) Int Int) Bool)",
	"(define-fun emptybase () (Array Int Int) ((as const (Array Int Int)) 0))",
}

func displayNameFor(fn *ssa.Function, fc *FuncContract) string {
	if fc != nil && strings.HasPrefix(fc.Key, "after:") {
		p := pkgOf(fn)
		pn := ""
		if p != nil {
			pn = p.Name()
		}
		return pn + ".closure(" + strings.TrimPrefix(fc.Key, "after:") + ")"
	}
	return displayName(fn)
}

func displayName(fn *ssa.Function) string {
	p := pkgOf(fn)
	pn := ""
	if p != nil {
		pn = p.Name()
	}
	return pn + "." + funcKey(fn)
}

// specClosure finds the spec functions (transitively) mentioned by texts.
func (e *Engine) specClosure(texts []string) []*SpecFunc {
	used := map[string]bool{}
	var work []string
	scan := func(t string) {
		for name := range e.contracts.Specs {
			if !used[name] && containsIdent(t, name) {
				used[name] = true
				work = append(work, name)
			}
		}
	}
	for _, t := range texts {
		scan(t)
	}
	for len(work) > 0 {
		n := work[len(work)-1]
		work = work[:len(work)-1]
		scan(e.contracts.Specs[n].Text)
	}
	var names []string
	for n := range used {
		names = append(names, n)
	}
	sort.Strings(names)
	var out []*SpecFunc
	for _, n := range names {
		out = append(out, e.contracts.Specs[n])
	}
	return out
}

func containsIdent(text, id string) bool {
	for i := 0; ; {
		j := strings.Index(text[i:], id)
		if j < 0 {
			return false
		}
		j += i
		before := j == 0 || !isIdentChar(text[j-1])
		after := j+len(id) >= len(text) || !isIdentChar(text[j+len(id)])
		if before && after {
			return true
		}
		i = j + len(id)
	}
}

func isIdentChar(c byte) bool {
	return c == '_' || c >= '0' && c <= '9' || c >= 'a' && c <= 'z' || c >= 'A' && c <= 'Z'
}

// compileSpecs emits the spec functions in dependency order: non-recursive
// ones as define-fun (expanded eagerly by the solvers), recursive SCCs as
// define-funs-rec.
func (e *Engine) compileSpecs(specs []*SpecFunc) (string, error) {
	if len(specs) == 0 {
		return "", nil
	}
	type comp struct{ decl, body string }
	compiled := map[string]comp{}
	byName := map[string]*SpecFunc{}
	for _, sf := range specs {
		byName[sf.Name] = sf
		_, vals, pd := specParamSorts(sf)
		ret := "Int"
		if _, isBool := specResult(sf, "x").(Bool); isBool {
			ret = "Bool"
		}
		x := &Exec{eng: e, usedSpecs: map[string]bool{}, notes: map[string]bool{}}
		env := &Env{x: x, vars: map[string]Val{}, pkg: e.tpkgs[sf.Pkg], spec: true}
		names, _, _ := specParamSorts(sf)
		for i, n := range names {
			env.vars[n] = vals[i]
		}
		var body string
		var err error
		func() {
			defer func() {
				if r := recover(); r != nil {
					if ee, ok := r.(evalError); ok {
						err = fmt.Errorf("spec func %s: %s", sf.Name, ee.msg)
						return
					}
					panic(r)
				}
			}()
			v := env.specStmts(sf.Decl.Body.List)
			body = flatten(v)[0]
		}()
		if err != nil {
			return "", err
		}
		compiled[sf.Name] = comp{"(" + smtSym("spec."+sf.Name) + " (" + strings.Join(pd, " ") + ") " + ret + ")", body}
	}
	// dependency graph
	deps := map[string][]string{}
	for _, sf := range specs {
		for _, other := range specs {
			if containsIdent(sf.Text[strings.Index(sf.Text, "{"):], other.Name) {
				deps[sf.Name] = append(deps[sf.Name], other.Name)
			}
		}
	}
	// Tarjan SCC; emission order = reverse topological (dependencies first)
	index := 0
	idx := map[string]int{}
	low := map[string]int{}
	on := map[string]bool{}
	var stack []string
	var sccs [][]string
	var strong func(v string)
	strong = func(v string) {
		idx[v], low[v] = index, index
		index++
		stack = append(stack, v)
		on[v] = true
		for _, w := range deps[v] {
			if _, seen := idx[w]; !seen {
				strong(w)
				if low[w] < low[v] {
					low[v] = low[w]
				}
			} else if on[w] && idx[w] < low[v] {
				low[v] = idx[w]
			}
		}
		if low[v] == idx[v] {
			var scc []string
			for {
				w := stack[len(stack)-1]
				stack = stack[:len(stack)-1]
				on[w] = false
				scc = append(scc, w)
				if w == v {
					break
				}
			}
			sccs = append(sccs, scc)
		}
	}
	for _, sf := range specs {
		if _, seen := idx[sf.Name]; !seen {
			strong(sf.Name)
		}
	}
	var out []string
	for _, scc := range sccs {
		selfRec := false
		if len(scc) == 1 {
			for _, d := range deps[scc[0]] {
				if d == scc[0] {
					selfRec = true
				}
			}
		}
		if len(scc) == 1 && !selfRec {
			c := compiled[scc[0]]
			// (define-fun name (params) ret body): decl is "(name (params) ret)"
			out = append(out, "(define-fun "+c.decl[1:len(c.decl)-1]+" "+c.body+")")
			continue
		}
		sort.Strings(scc)
		var decls, bodies []string
		for _, n := range scc {
			decls = append(decls, compiled[n].decl)
			bodies = append(bodies, compiled[n].body)
		}
		out = append(out, "(define-funs-rec ("+strings.Join(decls, " ")+") ("+strings.Join(bodies, " ")+"))")
	}
	return strings.Join(out, "\n"), nil
}

func (x *Exec) useSpec(sf *SpecFunc) {
	if x.usedSpecs != nil {
		x.usedSpecs[sf.Name] = true
	}
}

// contractTexts gathers clause texts of fc and of contracts of callees reachable from fn.
func (e *Engine) contractTexts(fn *ssa.Function, fc *FuncContract) []string {
	var texts []string
	add := func(c *FuncContract) {
		if c == nil {
			return
		}
		for _, cl := range c.Requires {
			texts = append(texts, cl.Text)
		}
		for _, cl := range c.Ensures {
			texts = append(texts, cl.Text)
		}
		for _, lc := range c.Loops {
			for _, cl := range lc.Invariants {
				texts = append(texts, cl.Text)
			}
			if lc.Decreases != nil {
				texts = append(texts, lc.Decreases.Text)
			}
			for _, cl := range lc.Ensures {
				texts = append(texts, cl.Text)
			}
		}
		for _, cs := range c.CallSites {
			texts = append(texts, cs.Clause.Text)
		}
		for _, cl := range c.AtReturn {
			texts = append(texts, cl.Text)
		}
	}
	add(fc)
	seen := map[*ssa.Function]bool{}
	var walk func(f *ssa.Function, d int)
	walk = func(f *ssa.Function, d int) {
		if seen[f] || d > 4 {
			return
		}
		seen[f] = true
		for _, b := range f.Blocks {
			for _, in := range b.Instrs {
				if ci, ok := in.(ssa.CallInstruction); ok {
					if cal := ci.Common().StaticCallee(); cal != nil {
						add(e.contractOf(cal))
						if p := pkgOf(cal); p != nil && strings.HasPrefix(p.Path(), repoModule) {
							walk(cal, d+1)
						}
					}
				}
				if mc, ok := in.(*ssa.MakeClosure); ok {
					walk(mc.Fn.(*ssa.Function), d+1)
				}
			}
		}
	}
	walk(fn, 0)
	// interface method contracts
	for _, c := range e.contracts.Funcs {
		if strings.Contains(c.Key, ".") && e.fnByKey[ckey(c.Pkg, c.Key)] == nil {
			add(c)
		}
	}
	return texts
}

type VerifyOpts struct {
	LiveTimeoutMs int
	RaceTimeoutS  int
	PathCap       int
	InlineDepth   int
}

func (e *Engine) VerifyFunction(fn *ssa.Function, fc *FuncContract, opts VerifyOpts) *FuncResult {
	res := e.verifyFunction(fn, fc, opts)
	e.checkOptsUsed(fn, fc, res)
	e.checkClausesBound(fn, fc, res)
	if res != nil {
		// bookkeeping notes are not abstractions: keep them out of the report
		var keep []string
		for _, n := range res.Notes {
			if !strings.HasPrefix(n, "cs-hit:") && !strings.HasPrefix(n, "opt-used:") {
				keep = append(keep, n)
			}
		}
		res.Notes = keep
	}
	return res
}

// checkOptsUsed: an option that grants an assumption about a callback / interface method
// ("opt callback.f=maypanic", "opt invoke.M=pure") must name a call that the exploration actually
// met; otherwise the contract is silently talking about a callee that does not exist (renamed
// local, typo) and e.g. a nopanic clause is vacuous. Reported as a failed static obligation.
func (e *Engine) checkOptsUsed(fn *ssa.Function, fc *FuncContract, res *FuncResult) {
	if res == nil || res.Error != "" || res.Capped {
		return
	}
	used := map[string]bool{}
	for _, n := range res.Notes {
		if strings.HasPrefix(n, "opt-used:") {
			used[n[len("opt-used:"):]] = true
		}
	}
	var keys []string
	for k := range fc.Opts {
		if strings.HasPrefix(k, "callback.") || strings.HasPrefix(k, "invoke.") {
			keys = append(keys, k)
		}
	}
	sort.Strings(keys)
	for _, k := range keys {
		name := displayNameFor(fn, fc) + "/option(" + k + ")"
		o := &Oblig{Name: name, Fn: displayNameFor(fn, fc), Kind: "option-used", Props: fc.Props, Text: "opt " + k + "=" + fc.Opts[k] + " names a call met on some explored path (otherwise the assumption it grants is not in force and clauses relying on it are vacuous)", Engines: map[string]int{}}
		o.Instances = 1
		if used[k] {
			o.Unsat = 1
			o.Engines["path-exploration"]++
		} else {
			o.Failures = append(o.Failures, &Failure{Status: "static", Trace: []string{"no call named " + k[strings.Index(k, ".")+1:] + " was met"}})
		}
		res.Obligs = append(res.Obligs, o)
	}
}

// checkClausesBound: a call-site clause whose callee is met on no explored path, and a loop clause whose
// loop ordinal does not exist, would otherwise vanish without a trace (the contract has drifted from the
// code: a call was removed or renamed, call-site ordinals shifted, a loop disappeared). They are reported
// as UNBOUND obligations: visible in the output and the evidence, not counted as discharged.
func (e *Engine) checkClausesBound(fn *ssa.Function, fc *FuncContract, res *FuncResult) {
	if res == nil || res.Error != "" || res.Capped {
		return
	}
	hit := map[string]bool{}
	for _, n := range res.Notes {
		if strings.HasPrefix(n, "cs-hit:") {
			hit[n[len("cs-hit:"):]] = true
		}
	}
	disp := displayNameFor(fn, fc)
	for _, cs := range fc.CallSites {
		if hit[strconv.Itoa(cs.Clause.Ord)] {
			continue
		}
		props := cs.Clause.Props
		if len(props) == 0 {
			props = fc.Props
		}
		ob := &Oblig{Name: fmt.Sprintf("%s/callsite(%s)#%d", disp, cs.Callee, cs.Clause.Ord), Fn: disp, Kind: "unbound", Props: props,
			Text: "at call " + cs.Callee + ": " + cs.Clause.Text + " [UNBOUND: no call of " + cs.Callee + " is met on any explored path]", Engines: map[string]int{}}
		if fc.Opts["strict"] == "true" {
			// opt strict=true: for this function a clause that no longer binds is a failure (the contract is the
			// only guard of what it states, so drift between contract and code must not pass silently)
			ob.Kind, ob.Instances = "contract-drift", 1
			ob.Failures = append(ob.Failures, &Failure{Status: "static", Trace: []string{"no call of " + cs.Callee + " is met"}})
		}
		res.Obligs = append(res.Obligs, ob)
	}
	n := len(e.loopsOf(fn).list)
	var ords []int
	for ord := range fc.Loops {
		ords = append(ords, ord)
	}
	sort.Ints(ords)
	for _, ord := range ords {
		if ord >= 1 && ord <= n {
			continue
		}
		ob := &Oblig{Name: fmt.Sprintf("%s/loop%d", disp, ord), Fn: disp, Kind: "unbound", Props: fc.Props,
			Text: fmt.Sprintf("loop %d clauses [UNBOUND: the function has %d loop(s)]", ord, n), Engines: map[string]int{}}
		if fc.Opts["strict"] == "true" {
			ob.Kind, ob.Instances = "contract-drift", 1
			ob.Failures = append(ob.Failures, &Failure{Status: "static", Trace: []string{fmt.Sprintf("the function has %d loop(s)", n)}})
		}
		res.Obligs = append(res.Obligs, ob)
	}
}

func (e *Engine) verifyFunction(fn *ssa.Function, fc *FuncContract, opts VerifyOpts) *FuncResult {
	n := 0
	if v := fc.Opts["split"]; v != "" {
		n = 1 << uint(atoi(v))
	}
	if n <= 1 {
		return e.verifyShard(fn, fc, opts, 0, 0, nil)
	}
	// dry pre-pass: enumerate the path tree without a solver, deal the leaves
	// round-robin to the shards
	dry := e.verifyShard(fn, fc, opts, -1, 0, nil)
	if dry.Error != "" || len(dry.dryLeaves) < 2*n {
		return e.verifyShard(fn, fc, opts, 0, 0, nil)
	}
	owners := map[string]uint64{}
	leafCount := map[string]int{}
	for i, leaf := range dry.dryLeaves {
		bit := uint64(1) << uint(i%n)
		for j := 0; j <= len(leaf); j++ {
			owners[leaf[:j]] |= bit
			leafCount[leaf[:j]]++
		}
	}
	gLeafCounts.Store(fn, leafCount)
	parts := make([]*FuncResult, n)
	var wg sync.WaitGroup
	for i := 0; i < n; i++ {
		wg.Add(1)
		go func(i int) {
			defer wg.Done()
			shardSem <- struct{}{}
			defer func() { <-shardSem }()
			parts[i] = e.verifyShard(fn, fc, opts, i, n, owners)
		}(i)
	}
	wg.Wait()
	return mergeResults(parts)
}

var shardSem = make(chan struct{}, 16)
var gLeafCounts sync.Map

func mergeResults(parts []*FuncResult) *FuncResult {
	res := parts[0]
	byName := map[string]*Oblig{}
	for _, o := range res.Obligs {
		byName[o.Name] = o
	}
	notes := map[string]bool{}
	for _, n := range res.Notes {
		notes[n] = true
	}
	for _, p := range parts[1:] {
		for _, o := range p.Obligs {
			m := byName[o.Name]
			if m == nil {
				byName[o.Name] = o
				res.Obligs = append(res.Obligs, o)
				continue
			}
			m.Instances += o.Instances
			m.Unsat += o.Unsat
			m.Ms += o.Ms
			m.Failures = append(m.Failures, o.Failures...)
			for k, v := range o.Engines {
				m.Engines[k] += v
			}
			if m.Kind != "unbound" && o.Kind == "unbound" {
				m.Kind, m.Text = o.Kind, o.Text
			}
			if m.Sample == "" {
				m.Sample = o.Sample
			}
		}
		for _, n := range p.Notes {
			notes[n] = true
		}
		res.Paths += p.Paths
		res.Returns += p.Returns
		res.Panics += p.Panics
		res.Capped = res.Capped || p.Capped
		if res.Error == "" {
			res.Error = p.Error
		}
		if p.WallMs > res.WallMs {
			res.WallMs = p.WallMs
		}
	}
	// vacuity: some shard must have reached a feasible normal return
	vac := ""
	anyCover := false
	for _, p := range parts {
		if p.Vacuous == "" && p.Returns > 0 {
			anyCover = true
		}
		if p.Vacuous != "" {
			vac = p.Vacuous
		}
	}
	if anyCover {
		vac = ""
	}
	res.Vacuous = vac
	// obligations that only exist because no write/panic happened: keep discharged
	res.Notes = sortedKeys(notes)
	return res
}

func (e *Engine) verifyShard(fn *ssa.Function, fc *FuncContract, opts VerifyOpts, shard, nshards int, owners map[string]uint64) (res *FuncResult) {
	t0 := time.Now()
	res = &FuncResult{Key: ckey(fc.Pkg, fc.Key), Display: displayNameFor(fn, fc), Pkg: fc.Pkg, Props: fc.Props, fn: fn, fc: fc}
	defer func() {
		res.WallMs = time.Since(t0).Milliseconds()
		if r := recover(); r != nil {
			if ee, ok := r.(evalError); ok {
				res.Error = "contract evaluation: " + ee.msg
				return
			}
			res.Error = fmt.Sprintf("engine panic: %v", r)
			if os.Getenv("GOVC_DEBUG") != "" {
				panic(r)
			}
		}
	}()
	specs := e.specClosure(e.contractTexts(fn, fc))
	specBlock, err := e.compileSpecs(specs)
	if err != nil {
		res.Error = err.Error()
		return
	}
	for _, s := range specs {
		res.Specs = append(res.Specs, s.Name)
	}
	pre := append([]string{}, basePreamble...)
	pre = append(pre, e.functionalPreamble()...)
	if specBlock != "" {
		pre = append(pre, specBlock)
	}
	if v := fc.Opts["livetimeout"]; v != "" {
		opts.LiveTimeoutMs = atoi(v)
	}
	var sess *Session
	if shard < 0 {
		sess = NewDrySession()
	} else {
		sess = NewSession(pre, opts.LiveTimeoutMs)
	}
	defer sess.Close()
	x := &Exec{eng: e, sess: sess, top: fn, fc: fc, obligs: map[string]*Oblig{}, declared: map[string]bool{}, usedSpecs: map[string]bool{},
		notes: map[string]bool{}, pathCap: opts.PathCap, safetyNames: map[ssa.Instruction]string{}, raceTimeout: opts.RaceTimeoutS,
		inlineDepth: opts.InlineDepth, curFnName: displayNameFor(fn, fc), shard: shard, nshards: nshards, owners: owners}
	if lc, ok := gLeafCounts.Load(fn); ok {
		x.leafCount = lc.(map[string]int)
	}
	if v := fc.Opts["pathcap"]; v != "" {
		x.pathCap = atoi(v)
	}
	if v := fc.Opts["inline"]; v != "" {
		x.inlineDepth = atoi(v)
	}
	if v := fc.Opts["racetimeout"]; v != "" {
		x.raceTimeout = atoi(v)
	}
	st := &State{cellv: map[*Cell]Val{}, heap: map[string]string{}, defers: map[int][]deferred{}, open: map[loopKey]*openLoop{}}
	x.declare("allocW0", "Int")
	x.assume("(< 1000 allocW0)")
	st.allocW = "allocW0"
	x.entryAllocW = "allocW0"
	fr := x.newFrame(fn, nil)
	// parameters
	var args []Val
	entryVars := map[string]Val{}
	for _, p := range fn.Params {
		v := x.mkFresh(p.Type(), "in_"+p.Name())
		x.assumeAllocated(st, v)
		args = append(args, v)
		entryVars[p.Name()] = v
		entryVars["param"+strconv.Itoa(len(args)-1)] = v
		for i, t := range flatten(v) {
			x.inputTerms = append(x.inputTerms, t)
			cs := comps(p.Type())
			suffix := ""
			if i < len(cs) {
				suffix = cs[i].Suffix
			}
			x.inputNames = append(x.inputNames, p.Name()+suffix)
		}
	}
	x.topFn = fn
	for i, fv := range fn.FreeVars {
		// free variables of a closure verified stand-alone: arbitrary cells
		c := &Cell{Name: fv.Name(), Frame: fr.id}
		elem := fv.Type().(*types.Pointer).Elem()
		if x.freeCellTypes == nil {
			x.freeCellTypes = map[*Cell]types.Type{}
		}
		x.freeCellTypes[c] = elem
		val := x.mkFresh(elem, "free_"+fv.Name())
		x.assumeAllocated(st, val) // what a captured variable refers to was allocated before the call
		st.cellv[c] = val
		fr.binds = append(fr.binds, Ptr{Cell: c, Elem: elem})
		// (not in entryVars: a captured variable denotes its CURRENT value in postconditions; old(...) reads the entry state)
		if x.freeCells == nil {
			x.freeCells = map[string]*Cell{}
		}
		x.freeCells[fv.Name()] = c
		_ = i
	}
	x.paramVals = entryVars
	x.entryState = st.clone()
	x.entryEnv = &Env{x: x, st: x.entryState, vars: entryVars, pkg: pkgOf(fn)}
	// requires
	for _, r := range fc.Requires {
		goal, err := x.evalClause(x.entryEnv, r)
		if err != nil {
			res.Error = fmt.Sprintf("requires#%d unbound: %v", r.Ord, err)
			return
		}
		x.assume(goal)
	}
	// lengths of input slices/strings are part of the input description
	res.Inputs = x.inputNames
	if sat := sess.CheckSat(); sat == "unsat" {
		res.Vacuous = "precondition is unsatisfiable"
	}
	// the entry state must see heap reads made by requires in the same epoch
	for c, t := range x.entryState.heap {
		st.heap[c] = t
	}
	coverDone := false
	x.runFunction(st, fr, args, func(st2 *State, o Outcome) {
		x.leaf(st2)
		if o.Panic {
			x.panicPaths++
			if fc.NoPanic {
				ob := x.oblig(x.curFnName+"/nopanic", "nopanic", fc.Props, fn.Pos(), "function does not exit by panic")
				st2.trace = append(st2.trace, fmt.Sprintf("PANIC(%v) choices=%s", o.PanicVal, st2.choices))
				x.check(st2, ob, "false")
			}
			env := x.postEnv(st2, fr, nil)
			env.vars["panicval"] = o.PanicVal
			for _, c := range fc.Ensures {
				if c.When != "panic" {
					continue
				}
				ob := x.oblig(fmt.Sprintf("%s/panics#%d", x.curFnName, c.Ord), "postcondition(panic)", x.propsFor(fr, c), fn.Pos(), c.Text)
				goal, err := x.evalClause(env, c)
				if err != nil {
					x.unbound(ob, err)
					continue
				}
				x.check(st2, ob, goal)
			}
			return
		}
		x.returnPaths++
		if !coverDone {
			if sess.CheckSat() != "unsat" {
				coverDone = true
				x.covers++
			}
		}
		env := x.postEnv(st2, fr, o.Vals)
		type pend struct {
			ob   *Oblig
			goal string
		}
		var pends []pend
		for _, c := range fc.Ensures {
			if c.When == "panic" {
				continue
			}
			ob := x.oblig(fmt.Sprintf("%s/ensures#%d", x.curFnName, c.Ord), "postcondition", x.propsFor(fr, c), fn.Pos(), c.Text)
			goal, err := x.evalClause(env, c)
			if err != nil {
				x.unbound(ob, err)
				continue
			}
			pends = append(pends, pend{ob, goal})
		}
		// fast path: all postconditions of this path in one query
		if len(pends) > 1 && x.owns(st2) {
			var gs []string
			for _, p := range pends {
				gs = append(gs, p.goal)
			}
			r, ms, _ := sess.CheckNot(sAnd(gs...), nil)
			x.combMs += ms
			x.combN++
			if r == "unsat" {
				x.combOK++
				for _, p := range pends {
					p.ob.Instances++
					p.ob.Unsat++
					p.ob.Engines["z3-new(live)"]++
					p.ob.Ms += ms / int64(len(pends))
					if p.ob.Sample == "" {
						p.ob.Sample = p.goal
						if len(p.ob.Sample) > 400 {
							p.ob.Sample = p.ob.Sample[:400] + "…"
						}
					}
				}
				pends = nil
			}
		}
		for _, p := range pends {
			x.check(st2, p.ob, p.goal)
		}
		if fc.HasAssign && len(fc.Assigns) > 0 {
			// make sure the frame obligation exists even if no write happened
			x.oblig(x.curFnName+"/assigns", "frame", fc.Props, fn.Pos(), "assigns "+strings.Join(fc.Assigns, ", "))
		}
	})
	if len(fc.Reads) > 0 && shard <= 0 {
		props := fc.ReadsProps
		if len(props) == 0 {
			props = fc.Props
		}
		got := e.fieldsRead(fn)
		for _, item := range fc.Reads {
			ob := x.oblig(x.curFnName+"/reads("+item+")", "reads-frame", props, fn.Pos(), "the value of "+item+" is read by this function or a same-package function reachable from it (static check on the SSA, back end: dataflow)")
			ob.Instances++
			if got[item] {
				ob.Unsat++
				ob.Engines["ssa-dataflow"]++
			} else {
				ob.Failures = append(ob.Failures, &Failure{Status: "static", Trace: []string{item + " is never loaded"}})
			}
		}
	}
	if fc.OrderFree && shard <= 0 {
		props := fc.OrderFreeProps
		if len(props) == 0 {
			props = fc.Props
		}
		ob := x.oblig(x.curFnName+"/orderfree", "order", props, fn.Pos(), "every slice appended to inside a range-over-map loop is passed to sort.Strings/Ints/Sort before it is used (static check on the SSA, back end: dataflow)")
		ob.Instances++
		if why := e.orderFreeViolation(fn); why == "" {
			ob.Unsat++
			ob.Engines["ssa-dataflow"]++
		} else {
			ob.Text += " [" + why + "]"
			ob.Failures = append(ob.Failures, &Failure{Status: "static", Trace: []string{why}})
		}
	}
	if fc.HasAssign {
		if o := x.obligs[x.curFnName+"/assigns"]; o != nil && o.Instances == 0 {
			o.Instances, o.Unsat = 1, 1
			o.Engines["no-heap-write-on-any-path"]++
		}
	}
	for ord, lc := range fc.Loops {
		if lc.NoPanic != nil && shard <= 0 {
			props := lc.NoPanic.Props
			if len(props) == 0 {
				props = fc.Props
			}
			ob := x.oblig(fmt.Sprintf("%s/loop%d.nopanic", x.curFnName, ord), "loop-nopanic", props, fn.Pos(), lc.NoPanic.Text)
			if ob.Instances == 0 {
				ob.Instances, ob.Unsat = 1, 1
				ob.Engines["no-panicking-path"]++
			}
		}
	}
	if fc.NoPanic {
		ob := x.oblig(x.curFnName+"/nopanic", "nopanic", fc.Props, fn.Pos(), "function does not exit by panic")
		if ob.Instances == 0 {
			ob.Instances, ob.Unsat = 1, 1
			ob.Engines["no-panicking-path"]++
		}
	}
	if x.returnPaths > 0 && x.covers == 0 && res.Vacuous == "" {
		res.Vacuous = "no normal return is reachable under the precondition"
	}
	for _, n := range x.order {
		res.Obligs = append(res.Obligs, x.obligs[n])
	}
	res.Notes = sortedKeys(x.notes)
	res.Paths = x.paths + 1
	res.Returns = x.returnPaths
	res.Panics = x.panicPaths
	res.Capped = x.capped
	res.dryLeaves = x.dryLeaves
	if os.Getenv("GOVC_DEBUG") != "" {
		fmt.Fprintf(os.Stderr, "  shard %d: prune %d checks %dms (%d pruned); combined-ensures %d checks %dms (%d ok); live checks %d\n", shard, x.pruneN, x.pruneMs, x.pruned, x.combN, x.combMs, x.combOK, sess.nchecks)
	}
	return
}

func (x *Exec) assumeAllocated(st *State, v Val) {
	lim := st.allocW
	if st.nAlloc > 0 {
		lim = "(+ " + st.allocW + " " + strconv.Itoa(st.nAlloc) + ")"
	}
	switch y := v.(type) {
	case Ptr:
		if y.Cell == nil && y.Arr == "" {
			x.assume("(< " + y.Ref + " " + lim + ")")
		}
	case Slice:
		x.assume("(< " + y.Arr + " " + lim + ")")
	case MapV:
		x.assume("(< " + y.Ref + " " + lim + ")")
	case Func:
		x.assume("(< " + y.T + " " + lim + ")")
	case Iface:
		x.assume("(< " + y.Pay + " " + lim + ")")
	case Struct:
		for _, f := range y.F {
			x.assumeAllocated(st, f)
		}
	case Tuple:
		for _, f := range y.E {
			x.assumeAllocated(st, f)
		}
	}
}

// postEnv: environment for postconditions. Parameter names denote entry values.
func (x *Exec) postEnv(st *State, fr *Frame, vals []Val) *Env {
	vars := map[string]Val{}
	for n, v := range x.paramVals {
		vars[n] = v
	}
	res := fr.fn.Signature.Results()
	for i := 0; i < res.Len() && i < len(vals); i++ {
		if n := res.At(i).Name(); n != "" && n != "_" {
			vars[n] = vals[i]
		}
		vars[fmt.Sprintf("result%d", i)] = vals[i]
	}
	if len(vals) > 0 {
		vars["result"] = vals[0]
	}
	pos := fr.fn.Pos()
	if syn, ok := fr.fn.Syntax().(*ast.FuncDecl); ok && syn.Body != nil {
		pos = syn.Body.Rbrace
	} else if syn, ok := fr.fn.Syntax().(*ast.FuncLit); ok {
		pos = syn.Body.Rbrace
	}
	return &Env{x: x, st: st, vars: vars, fr: fr, pos: pos, pkg: pkgOf(fr.fn), old: x.entryEnv}
}

// parseGetValue parses "((t v) (t v) ...)" positionally.
func parseGetValue(raw string, terms, names []string) map[string]string {
	out := map[string]string{}
	raw = strings.TrimSpace(raw)
	if !strings.HasPrefix(raw, "(") {
		return out
	}
	// top-level list of pairs
	depth := 0
	start := -1
	idx := 0
	for i := 0; i < len(raw); i++ {
		switch raw[i] {
		case '|':
			// skip quoted symbol
			j := strings.IndexByte(raw[i+1:], '|')
			if j >= 0 {
				i += j + 1
			}
		case '(':
			depth++
			if depth == 2 {
				start = i
			}
		case ')':
			if depth == 2 && start >= 0 {
				pair := raw[start+1 : i]
				// value is the last s-expression of the pair
				val := lastSexp(pair)
				if idx < len(names) {
					out[names[idx]] = val
				}
				idx++
				start = -1
			}
			depth--
		}
	}
	return out
}

func lastSexp(s string) string {
	s = strings.TrimSpace(s)
	if strings.HasSuffix(s, ")") {
		d := 0
		for i := len(s) - 1; i >= 0; i-- {
			if s[i] == ')' {
				d++
			} else if s[i] == '(' {
				d--
				if d == 0 {
					return s[i:]
				}
			}
		}
	}
	if i := strings.LastIndexAny(s, " \n\t"); i >= 0 {
		return s[i+1:]
	}
	return s
}

func (e *Engine) functionalPreamble() []string {
	var keys []string
	for k, fc := range e.contracts.Funcs {
		if fc.Functional && e.fnByKey[k] != nil {
			keys = append(keys, k)
		}
	}
	sort.Strings(keys)
	var out []string
	for _, k := range keys {
		out = append(out, functionalDecls(e.contracts.Funcs[k], e.fnByKey[k].Signature)...)
	}
	return out
}
