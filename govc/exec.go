package main

// Symbolic execution of go/ssa (naive form) function bodies, path by path,
// driving a live incremental solver session (push/pop follows the DFS).

import (
	"fmt"
	"go/ast"
	"go/constant"
	"go/token"
	"go/types"
	"os"
	"runtime"
	"sort"
	"strconv"
	"strings"
	"time"

	"golang.org/x/tools/go/ssa"
)

type State struct {
	cellv    map[*Cell]Val
	heap     map[string]string // heap class -> current array term
	epoch    int
	allocW   string // watermark: every object allocated before "now" has ref < allocW + nAlloc
	nAlloc   int
	defers   map[int][]deferred // frame id -> defer stack
	open     map[loopKey]*openLoop
	trace    []string
	panicVal Val               // non-nil while panicking (during deferred calls)
	ghost    map[string]string // ghost arrays (survive heap havoc): "held" : (Array Int Bool)
	calls    map[string]int    // number of calls made so far on this path, by source-level callee name
	dirty    []dirtyRec        // heap class prefixes havocked selectively, with the epoch of the havoc
	fdepth   int               // number of forks taken on this path
	choices  string            // branch choices taken so far ("0"/"1" per fork)
	lastRes  map[string]Val    // first result of the last returned call, by source-level callee name (ghost lastresult)
	rets     map[string]int    // number of calls that returned normally, by callee name (ghost returns)
}

type dirtyRec struct {
	prefix string
	epoch  int
}

type deferred struct {
	fn   Val
	args []Val
	call *ssa.CallCommon
}

type loopKey struct {
	frame int
	head  *ssa.BasicBlock
}

type openLoop struct {
	variant string
	snap    *State // state at the head of the current iteration (after havoc + invariant)
	exited  bool   // control has left the loop through its normal exit (from the head to a block outside)
}

func (s *State) clone() *State {
	n := &State{epoch: s.epoch, allocW: s.allocW, nAlloc: s.nAlloc, panicVal: s.panicVal, fdepth: s.fdepth, choices: s.choices}
	n.cellv = make(map[*Cell]Val, len(s.cellv))
	for k, v := range s.cellv {
		n.cellv[k] = v
	}
	n.heap = make(map[string]string, len(s.heap))
	for k, v := range s.heap {
		n.heap[k] = v
	}
	n.defers = make(map[int][]deferred, len(s.defers))
	for k, v := range s.defers {
		n.defers[k] = append([]deferred(nil), v...)
	}
	n.open = make(map[loopKey]*openLoop, len(s.open))
	for k, v := range s.open {
		n.open[k] = v
	}
	n.trace = append([]string(nil), s.trace...)
	n.dirty = append([]dirtyRec(nil), s.dirty...)
	n.ghost = make(map[string]string, len(s.ghost))
	for k, v := range s.ghost {
		n.ghost[k] = v
	}
	n.calls = make(map[string]int, len(s.calls))
	for k, v := range s.calls {
		n.calls[k] = v
	}
	if len(s.rets) > 0 {
		n.rets = make(map[string]int, len(s.rets))
		for k, v := range s.rets {
			n.rets[k] = v
		}
	}
	if len(s.lastRes) > 0 {
		n.lastRes = make(map[string]Val, len(s.lastRes))
		for k, v := range s.lastRes {
			n.lastRes[k] = v
		}
	}
	return n
}

type Frame struct {
	id        int
	fn        *ssa.Function
	regs      map[ssa.Value]Val
	cells     map[*ssa.Alloc]*Cell
	parent    *Frame
	depth     int
	loops     *loopInfo
	fc        *FuncContract // contract whose loop clauses apply to this frame
	binds     []Val         // closure bindings (FreeVars)
	inlineTag string
}

func (fr *Frame) cellByName(name string, pos token.Pos) *Cell {
	// prefer the types.Object visible at pos
	var best *Cell
	if fr.fn.Pkg != nil && pos.IsValid() {
		if sc := fr.fn.Pkg.Pkg.Scope().Innermost(pos); sc != nil {
			if _, obj := sc.LookupParent(name, pos); obj != nil {
				var cand *Cell
				for a, c := range fr.cells {
					if a.Comment == name && a.Pos() == obj.Pos() {
						if types.Identical(a.Type().(*types.Pointer).Elem(), obj.Type()) {
							return c
						}
						cand = c
					}
				}
				if cand != nil {
					return cand
				}
			}
		}
	}
	// fall back: unique alloc with that name
	n := 0
	for a, c := range fr.cells {
		if a.Comment == name {
			best = c
			n++
		}
	}
	if n == 1 {
		return best
	}
	if n > 1 {
		// choose the one declared last before pos
		var bp token.Pos
		for a, c := range fr.cells {
			if a.Comment == name && (!pos.IsValid() || a.Pos() <= pos) && a.Pos() >= bp {
				bp = a.Pos()
				best = c
			}
		}
		return best
	}
	return nil
}

type Outcome struct {
	Panic    bool
	Vals     []Val
	PanicVal Val
}

type Kont func(st *State, o Outcome)

type Oblig struct {
	Name      string
	Fn        string
	Kind      string
	Props     []string
	Pos       string
	Text      string
	Instances int
	Unsat     int
	Failures  []*Failure
	Ms        int64
	Engines   map[string]int
	Sample    string
}

type Failure struct {
	x       *Exec
	Status  string
	Trace   []string
	Script  string
	Model   map[string]string
	Outputs map[string]string
}

type Exec struct {
	eng           *Engine
	sess          *Session
	top           *ssa.Function
	fc            *FuncContract
	obligs        map[string]*Oblig
	order         []string
	nfresh        int
	nframes       int
	declared      map[string]bool
	usedSpecs     map[string]bool
	entryAllocW   string
	entryState    *State
	entryEnv      *Env
	paramVals     map[string]Val
	inputTerms    []string // terms whose model values describe the input
	inputNames    []string
	notes         map[string]bool // abstractions applied (for evidence)
	paths         int
	pathCap       int
	capped        bool
	safetyOrd     map[string]int // instruction -> ordinal naming
	safetyNames   map[ssa.Instruction]string
	raceTimeout   int
	ensGuard      map[string]int
	inlineDepth   int
	covers        int // number of paths reaching a normal return with sat-possible pc
	returnPaths   int
	panicPaths    int
	curFnName     string
	epochCtr      int
	instDone      map[string]int
	heapSort      map[string]string // heap class -> SMT sort of its array (for re-declaring after a havoc)
	freeCells     map[string]*Cell  // captured variables of a closure verified stand-alone
	freeCellTypes map[*Cell]types.Type
	topFn         *ssa.Function // the function under verification
	selfApply     bool          // applying the contract of the closure under verification to a recursive call of itself
	pruneMs       int64
	pruneN        int
	pruned        int
	combMs        int64
	combN         int
	combOK        int
	shard         int               // this worker's shard id
	nshards       int               // number of workers (0/1 = no sharding)
	owners        map[string]uint64 // from the dry pre-pass: which shards own a leaf below each choice prefix
	dryLeaves     []string          // dry pre-pass: choice strings of all leaves
	leafCount     map[string]int
}

func (x *Exec) note(s string) { x.notes[s] = true }

func (x *Exec) fresh(hint, sort string) string {
	x.nfresh++
	hint = strings.Map(func(r rune) rune {
		if r >= 'a' && r <= 'z' || r >= 'A' && r <= 'Z' || r >= '0' && r <= '9' || r == '_' || r == '.' {
			return r
		}
		return '_'
	}, hint)
	name := fmt.Sprintf("%s!%d", hint, x.nfresh)
	x.declare(name, sort)
	return name
}

func (x *Exec) declare(name, sort string) {
	if x.declared[name] {
		return
	}
	x.declared[name] = true
	x.sess.Decl("(declare-fun " + smtSym(name) + " () " + sort + ")")
}

func (x *Exec) assume(t string) {
	if t == "true" || t == "" {
		return
	}
	x.sess.Cmd("(assert " + t + ")")
}

// mkFresh creates an unconstrained symbolic value of type t, with the type's
// representation invariants assumed.
func (x *Exec) mkFresh(t types.Type, hint string) Val {
	cs := comps(t)
	ts := make([]string, len(cs))
	for i, c := range cs {
		ts[i] = smtSym(x.fresh(hint+c.Suffix, c.Sort))
	}
	if len(cs) == 0 {
		return zeroVal(t)
	}
	v, _ := unflatten(t, ts)
	x.assume(x.typeInv(v, t))
	return v
}

// typeInv: representation invariant of a value of type t.
func (x *Exec) typeInv(v Val, t types.Type) string {
	switch y := v.(type) {
	case Int:
		if b, ok := t.Underlying().(*types.Basic); ok && isIntegerBasic(b) {
			lo, hi := intRange(b)
			return "(and (<= " + lo + " " + y.T + ") (<= " + y.T + " " + hi + "))"
		}
		return "true"
	case Str:
		return "(and (<= 0 " + y.Off + ") (<= 0 " + y.Len + ") (<= " + y.Len + " 4611686018427387904))"
	case Slice:
		return "(and (<= 0 " + y.Arr + ") (<= 0 " + y.Off + ") (<= 0 " + y.Len + ") (<= " + y.Len + " " + y.Cap + ") (<= " + y.Cap + " 4611686018427387904) (=> (= " + y.Arr + " 0) (= " + y.Cap + " 0)))"
	case Ptr:
		if y.Cell == nil && y.Arr == "" {
			return "(<= 0 " + y.Ref + ")"
		}
	case MapV:
		return "(<= 0 " + y.Ref + ")"
	case Func:
		return "(<= 0 " + y.T + ")"
	case Iface:
		return "(and (<= 0 " + y.Tag + ") (=> (= " + y.Tag + " 0) (= " + y.Pay + " 0)))"
	case Struct:
		st := t.Underlying().(*types.Struct)
		var cs []string
		for i, f := range y.F {
			cs = append(cs, x.typeInv(f, st.Field(i).Type()))
		}
		return sAnd(cs...)
	case Tuple:
		tt := t.(*types.Tuple)
		var cs []string
		for i, f := range y.E {
			cs = append(cs, x.typeInv(f, tt.At(i).Type()))
		}
		return sAnd(cs...)
	}
	return "true"
}

// ---------- heap ----------

func arrSort(nIdx int, leaf string) string {
	s := leaf
	for i := 0; i < nIdx; i++ {
		s = "(Array Int " + s + ")"
	}
	return s
}

func (x *Exec) heapArr(st *State, class, sort string) string {
	if t, ok := st.heap[class]; ok {
		return t
	}
	ep := st.epoch
	for _, d := range st.dirty {
		if classMatch(class, d.prefix) && d.epoch > ep {
			ep = d.epoch
		}
	}
	name := fmt.Sprintf("H|%s|e%d", class, ep)
	x.declare(name, sort)
	if x.heapSort == nil {
		x.heapSort = map[string]string{}
	}
	x.heapSort[class] = sort
	st.heap[class] = smtSym(name)
	return st.heap[class]
}

func (x *Exec) havocHeap(st *State, why string) {
	if os.Getenv("GOVC_DEBUG") != "" {
		fmt.Fprintln(os.Stderr, "HAVOC heap:", why)
	}
	// opt callbacks.keep=<class-substr>|...: a user callback cannot reach the objects of these classes that the
	// function under verification allocated itself (they never escape to it): such objects keep their contents
	var kept map[string]string
	if x.fc != nil && x.fc.Opts["callbacks.keep"] != "" && (strings.HasPrefix(why, "callback") || strings.HasPrefix(why, "invoke")) && x.entryAllocW != "" {
		var classes []string
		for c := range x.heapSort {
			classes = append(classes, c)
		}
		sort.Strings(classes)
		for _, c := range classes {
			for _, pat := range strings.Split(x.fc.Opts["callbacks.keep"], "|") {
				if pat = strings.TrimSpace(pat); pat != "" && strings.Contains(c, pat) {
					if kept == nil {
						kept = map[string]string{}
					}
					kept[c] = x.heapArr(st, c, x.heapSort[c]) // the array as it is now (materialised if untouched so far)
				}
			}
		}
	}
	x.epochCtr++
	st.epoch = x.epochCtr
	st.heap = map[string]string{}
	st.dirty = nil
	for c, old := range kept {
		nt := x.heapArr(st, c, x.heapSort[c])
		qvCounter++
		q := fmt.Sprintf("q!%d", qvCounter)
		x.assume(fmt.Sprintf("(forall ((%s Int)) (=> (>= %s %s) (= (select %s %s) (select %s %s))))", q, q, x.entryAllocW, nt, q, old, q))
		x.note("assumed (opt callbacks.keep): user callbacks cannot reach the objects of heap class " + c + " that this function allocated")
	}
	// allocation watermark moves: objects allocated by the callee are below the new one
	nw := smtSym(x.fresh("allocW", "Int"))
	x.assume("(>= " + nw + " (+ " + st.allocW + " " + strconv.Itoa(st.nAlloc) + "))")
	st.allocW = nw
	st.nAlloc = 0
}

// havocClasses forgets the contents of the heap classes with the given prefixes only.
func (x *Exec) havocClasses(st *State, prefixes []string) {
	if os.Getenv("GOVC_DEBUG") != "" {
		fmt.Fprintln(os.Stderr, "HAVOC classes:", prefixes)
	}
	x.epochCtr++
	for _, p := range prefixes {
		for c := range st.heap {
			if classMatch(c, p) {
				delete(st.heap, c)
			}
		}
		st.dirty = append(st.dirty, dirtyRec{p, x.epochCtr})
	}
}

// classMatch: pattern is a prefix, or "~substr".
func classMatch(class, pat string) bool {
	if strings.HasPrefix(pat, "~") {
		return strings.Contains(class, pat[1:])
	}
	return strings.HasPrefix(class, pat)
}

func (x *Exec) newRef(st *State) string {
	r := "(+ " + st.allocW + " " + strconv.Itoa(st.nAlloc) + ")"
	if st.nAlloc == 0 {
		r = st.allocW
	}
	st.nAlloc++
	return r
}

func (x *Exec) locLoad(st *State, prefix string, idx []string, t types.Type) Val {
	cs := comps(t)
	if len(cs) == 0 {
		return zeroVal(t)
	}
	ts := make([]string, len(cs))
	for i, c := range cs {
		arr := x.heapArr(st, prefix+c.Suffix, arrSort(len(idx), c.Sort))
		term := arr
		for _, ix := range idx {
			term = "(select " + term + " " + ix + ")"
		}
		ts[i] = term
	}
	v, _ := unflatten(t, ts)
	return v
}

func (x *Exec) locStore(st *State, prefix string, idx []string, t types.Type, v Val) {
	cs := comps(t)
	fs := flatten(v)
	if len(fs) != len(cs) {
		x.note(fmt.Sprintf("store shape mismatch at %s (%d vs %d comps): location havocked", prefix, len(fs), len(cs)))
		for _, c := range cs {
			delete(st.heap, prefix+c.Suffix)
			st.heap[prefix+c.Suffix] = smtSym(x.fresh("Hhavoc", arrSort(len(idx), c.Sort)))
		}
		return
	}
	for i, c := range cs {
		class := prefix + c.Suffix
		arr := x.heapArr(st, class, arrSort(len(idx), c.Sort))
		st.heap[class] = nestedStore(arr, idx, fs[i])
	}
}

func nestedStore(arr string, idx []string, v string) string {
	if len(idx) == 1 {
		return "(store " + arr + " " + idx[0] + " " + v + ")"
	}
	inner := nestedStore("(select "+arr+" "+idx[0]+")", idx[1:], v)
	return "(store " + arr + " " + idx[0] + " " + inner + ")"
}

func pathNames(t types.Type, path []int) (string, types.Type) {
	s := ""
	cur := t
	for _, i := range path {
		st, ok := cur.Underlying().(*types.Struct)
		if !ok {
			return s + "?", cur
		}
		s += "." + st.Field(i).Name()
		cur = st.Field(i).Type()
	}
	return s, cur
}

// loadPtr loads through a pointer. t may be nil (derive from pointer).
func (x *Exec) loadPtr(st *State, p Ptr, t types.Type, check bool) Val {
	if p.Cell != nil {
		v, ok := st.cellv[p.Cell]
		if !ok {
			v = x.mkFresh(p.Cell.Alloc.Type().(*types.Pointer).Elem(), p.Cell.Name)
			st.cellv[p.Cell] = v
		}
		for _, i := range p.Path {
			s, ok := v.(Struct)
			if !ok {
				return x.mkFresh(t, "opaquefield")
			}
			v = s.F[i]
		}
		return v
	}
	if p.Arr != "" {
		return x.loadElem(st, p.Arr, p.Idx, p.Elem)
	}
	names, leaf := pathNames(p.Elem, p.Path)
	if t == nil {
		t = leaf
	}
	if _, isStruct := p.Elem.Underlying().(*types.Struct); isStruct || len(p.Path) > 0 {
		return x.locLoad(st, "F|"+typeKey(p.Elem)+names, []string{p.Ref}, t)
	}
	return x.locLoad(st, "P|"+typeKey(p.Elem), []string{p.Ref}, t)
}

func (x *Exec) storePtr(st *State, p Ptr, v Val, t types.Type) {
	if p.Cell != nil {
		if len(p.Path) == 0 {
			st.cellv[p.Cell] = v
			return
		}
		cur, ok := st.cellv[p.Cell]
		if !ok {
			cur = zeroVal(p.Cell.Alloc.Type().(*types.Pointer).Elem())
		}
		st.cellv[p.Cell] = updatePath(cur, p.Path, v)
		return
	}
	if p.Arr != "" {
		x.storeElem(st, p.Arr, p.Idx, p.Elem, v)
		return
	}
	names, leaf := pathNames(p.Elem, p.Path)
	if t == nil {
		t = leaf
	}
	if _, isStruct := p.Elem.Underlying().(*types.Struct); isStruct || len(p.Path) > 0 {
		x.locStore(st, "F|"+typeKey(p.Elem)+names, []string{p.Ref}, t, v)
		return
	}
	x.locStore(st, "P|"+typeKey(p.Elem), []string{p.Ref}, t, v)
}

func updatePath(cur Val, path []int, v Val) Val {
	if len(path) == 0 {
		return v
	}
	s, ok := cur.(Struct)
	if !ok {
		return cur
	}
	nf := append([]Val(nil), s.F...)
	nf[path[0]] = updatePath(nf[path[0]], path[1:], v)
	return Struct{Typ: s.Typ, F: nf}
}

func (x *Exec) loadElemPure(st *State, arr, idx string, elem types.Type) Val {
	return x.locLoad(st, "E|"+typeKey(elem), []string{arr, idx}, elem)
}

func (x *Exec) loadElem(st *State, arr, idx string, elem types.Type) Val {
	v := x.locLoad(st, "E|"+typeKey(elem), []string{arr, idx}, elem)
	if i, ok := v.(Int); ok {
		if b, ok := elem.Underlying().(*types.Basic); ok && isIntegerBasic(b) {
			x.assume(x.typeInv(i, elem))
		}
	} else if elem != nil {
		switch v.(type) {
		case Slice, Str, Iface, Ptr, MapV:
			x.assume(x.typeInv(v, elem))
		}
	}
	return v
}

func (x *Exec) storeElem(st *State, arr, idx string, elem types.Type, v Val) {
	x.locStore(st, "E|"+typeKey(elem), []string{arr, idx}, elem, v)
}

// sliceToStr snapshots a byte slice as an immutable sequence.
func (x *Exec) sliceToStr(st *State, s Slice) Str {
	arr := x.heapArr(st, "E|"+typeKey(s.Elem), arrSort(2, "Int"))
	return Str{"(select " + arr + " " + s.Arr + ")", s.Off, s.Len}
}

// maps: contents "M|<k>-><v>|val" : (Array Int (Array K V)), presence, length
func (x *Exec) mapKeyTerm(k Val) (string, string, bool) {
	switch kk := k.(type) {
	case Int:
		return kk.T, "Int", true
	case Str:
		return "(strkey " + kk.Base + " " + kk.Off + " " + kk.Len + ")", "Int", true
	case Ptr:
		return ptrTerm(kk), "Int", true
	case Opaque:
		return kk.T, "Int", true
	case Iface:
		return "(ifacekey " + kk.Tag + " " + kk.Pay + ")", "Int", true
	}
	return "", "", false
}

func (x *Exec) mapLoad(st *State, m MapV, k Val) Val {
	kt, _, ok := x.mapKeyTerm(k)
	if !ok {
		return x.mkFresh(m.Elt, "mapval")
	}
	class := "M|" + typeKey(m.Key) + "|" + typeKey(m.Elt)
	pres := x.heapArr(st, class+"|has", arrSort(2, "Bool"))
	v := x.locLoad(st, class+"|val", []string{m.Ref, kt}, m.Elt)
	has := "(select (select " + pres + " " + m.Ref + ") " + kt + ")"
	return iteVal(has, v, zeroVal(m.Elt))
}

func (x *Exec) mapHas(st *State, m MapV, k Val) string {
	kt, _, ok := x.mapKeyTerm(k)
	if !ok {
		return smtSym(x.fresh("maphas", "Bool"))
	}
	class := "M|" + typeKey(m.Key) + "|" + typeKey(m.Elt)
	pres := x.heapArr(st, class+"|has", arrSort(2, "Bool"))
	return "(select (select " + pres + " " + m.Ref + ") " + kt + ")"
}

func (x *Exec) mapStore(st *State, m MapV, k, v Val) {
	kt, _, ok := x.mapKeyTerm(k)
	class := "M|" + typeKey(m.Key) + "|" + typeKey(m.Elt)
	if !ok {
		// unknown key: havoc this map class
		for c := range st.heap {
			if strings.HasPrefix(c, class) {
				delete(st.heap, c)
			}
		}
		x.epochCtr++
		x.note("map update with unmodelled key type: map class havocked")
		return
	}
	pres := x.heapArr(st, class+"|has", arrSort(2, "Bool"))
	ln := x.heapArr(st, class+"|len", arrSort(1, "Int"))
	had := "(select (select " + pres + " " + m.Ref + ") " + kt + ")"
	st.heap[class+"|len"] = "(store " + ln + " " + m.Ref + " (ite " + had + " (select " + ln + " " + m.Ref + ") (+ 1 (select " + ln + " " + m.Ref + "))))"
	st.heap[class+"|has"] = nestedStore(pres, []string{m.Ref, kt}, "true")
	x.locStore(st, class+"|val", []string{m.Ref, kt}, m.Elt, v)
}

func (x *Exec) mapLen(st *State, m MapV) string {
	class := "M|" + typeKey(m.Key) + "|" + typeKey(m.Elt)
	ln := x.heapArr(st, class+"|len", arrSort(1, "Int"))
	return "(select " + ln + " " + m.Ref + ")"
}

// ---------- obligations ----------

func (x *Exec) oblig(name, kind string, props []string, pos token.Pos, text string) *Oblig {
	o := x.obligs[name]
	if o == nil {
		o = &Oblig{Name: name, Fn: x.curFnName, Kind: kind, Props: props, Text: text, Engines: map[string]int{}}
		if pos.IsValid() {
			p := x.eng.prog.Fset.Position(pos)
			o.Pos = fmt.Sprintf("%s:%d", relPath(p.Filename), p.Line)
		}
		x.obligs[name] = o
		x.order = append(x.order, name)
	}
	return o
}

// check proves goal under the current path condition.
func (x *Exec) check(st *State, o *Oblig, goal string) bool {
	if !x.owns(st) {
		return true
	}
	o.Instances++
	if goal == "true" {
		o.Unsat++
		o.Engines["trivial"]++
		return true
	}
	res, ms, model := x.sess.CheckNot(goal, x.inputTerms)
	o.Ms += ms
	if os.Getenv("GOVC_DEBUG") != "" && (ms > 300 || res != "unsat") {
		fmt.Fprintf(os.Stderr, "  [%s] live=%s %dms paths=%d\n", o.Name, res, ms, x.paths)
	}
	if res == "unsat" {
		o.Unsat++
		o.Engines["z3-new(live)"]++
		if o.Sample == "" {
			o.Sample = goal
			if len(o.Sample) > 400 {
				o.Sample = o.Sample[:400] + "…"
			}
		}
		return true
	}
	if len(o.Failures) >= 2 {
		// already failing: do not spend more solver time on further path instances
		o.Failures = append(o.Failures, &Failure{Status: res})
		return false
	}
	script := x.sess.Dump("(assert (not " + goal + "))")
	f := &Failure{x: x, Status: res, Trace: append([]string(nil), st.trace...), Script: script}
	_ = model
	{
		// The live (incremental) answer "sat"/"unknown" is only a hint: z3's
		// incremental mode loses recursive-function unfoldings across pop and
		// can report spurious models. The standalone race decides.
		rr := Race(script, x.raceTimeout, x.inputTerms)
		o.Ms += rr.Ms
		if rr.Status != "unsat" && rr.Status != "sat" && x.raceTimeout < 60 && machineLoaded() {
			// no engine decided within the (wall-clock) limit: on a loaded machine that is not yet an
			// answer. One more race with a six times larger limit before the instance counts as failed.
			rr = Race(script, x.raceTimeout*6, x.inputTerms)
			o.Ms += rr.Ms
		}
		if rr.Status == "unsat" {
			o.Unsat++
			o.Engines[rr.Engine]++
			return true
		}
		f.Status = rr.Status
		f.Outputs = rr.Outputs
		if rr.Status == "sat" {
			f.Model = parseGetValue(rr.Model, x.inputTerms, x.inputNames)
		}
	}
	o.Failures = append(o.Failures, f)
	return false
}

// machineLoaded: the 1-minute load average exceeds one and a half times the number of CPUs (the solvers'
// limits are wall-clock, so an undecided query then says little)
func machineLoaded() bool {
	b, err := os.ReadFile("/proc/loadavg")
	if err != nil {
		return false
	}
	f := strings.Fields(string(b))
	if len(f) == 0 {
		return false
	}
	l, err := strconv.ParseFloat(f[0], 64)
	return err == nil && l > 1.5*float64(runtime.NumCPU())
}

func relPath(p string) string {
	if i := strings.Index(p, "/repo/"); i >= 0 {
		return p[i+6:]
	}
	return p
}

// ---------- function execution ----------

func (x *Exec) newFrame(fn *ssa.Function, parent *Frame) *Frame {
	x.nframes++
	fr := &Frame{id: x.nframes, fn: fn, regs: map[ssa.Value]Val{}, cells: map[*ssa.Alloc]*Cell{}, parent: parent}
	if parent != nil {
		fr.depth = parent.depth + 1
	}
	fr.loops = x.eng.loopsOf(fn)
	fr.fc = x.eng.contractOf(fn)
	return fr
}

// runFunction executes fn with the given argument values.
func (x *Exec) runFunction(st *State, fr *Frame, args []Val, k Kont) {
	fn := fr.fn
	for i, p := range fn.Params {
		if i < len(args) {
			fr.regs[p] = args[i]
		}
	}
	for i, fv := range fn.FreeVars {
		if i < len(fr.binds) {
			fr.regs[fv] = fr.binds[i]
		} else {
			fr.regs[fv] = x.mkFresh(fv.Type(), "freevar_"+fv.Name())
		}
	}
	if len(fn.Blocks) == 0 {
		k(st, Outcome{})
		return
	}
	x.block(st, fr, fn.Blocks[0], nil, k)
}

func (x *Exec) block(st *State, fr *Frame, b, prev *ssa.BasicBlock, k Kont) {
	if x.capped {
		return
	}
	st.trace = append(st.trace, fmt.Sprintf("%s#%d", fr.fn.Name(), b.Index))
	if len(st.trace) > 4000 {
		x.capped = true
		x.note("path length cap hit")
		return
	}
	// leaving a loop through its normal exit: from the loop head to a block outside the loop
	if prev != nil {
		if plp := fr.loops.byHead[prev]; plp != nil && !plp.blocks[b] {
			key := loopKey{fr.id, prev}
			if ol := st.open[key]; ol != nil && !ol.exited {
				cp := *ol
				cp.exited = true
				st.open[key] = &cp
			}
		}
	}
	if lp := fr.loops.byHead[b]; lp != nil {
		key := loopKey{fr.id, b}
		if ol := st.open[key]; ol != nil {
			// back edge: preservation + variant. The path ends here: it is a leaf for the sharding pre-pass too
			// (otherwise no shard owns the branches that lead only to back edges and their obligations vanish)
			x.leaf(st)
			x.loopArrive(st, fr, lp, b, ol, false)
			return
		}
		ol := &openLoop{}
		x.loopArrive(st, fr, lp, b, ol, true)
		st.open[key] = ol
	}
	x.instrs(st, fr, b, 0, prev, k)
}

func (x *Exec) loopClauses(fr *Frame, lp *loop) *LoopContract {
	if fr.fc == nil {
		return nil
	}
	return fr.fc.Loops[lp.ordinal]
}

func (x *Exec) loopEnv(st *State, fr *Frame, lp *loop) *Env {
	env := &Env{x: x, st: st, fr: fr, pos: lp.pos, pkg: pkgOf(fr.fn), vars: map[string]Val{}}
	if fr.parent == nil {
		env.old = x.entryEnv
	}
	// "rangeindex": the hidden index of THIS range loop (the one stored in the loop head)
	for _, in := range lp.head.Instrs {
		if s, ok := in.(*ssa.Store); ok {
			if a, ok := s.Addr.(*ssa.Alloc); ok && a.Comment == "rangeindex" {
				if c := fr.cells[a]; c != nil {
					if v, ok := st.cellv[c]; ok {
						env.vars["rangeindex"] = v
					}
				}
			}
		}
	}
	return env
}

func (x *Exec) loopArrive(st *State, fr *Frame, lp *loop, head *ssa.BasicBlock, ol *openLoop, entering bool) {
	lc := x.loopClauses(fr, lp)
	fname := x.fnDisplay(fr)
	phase := "preserve"
	if entering {
		phase = "establish"
	}
	if lc != nil && lc.Over != nil && entering {
		// the iteration domain: what the range statement of THIS loop ranges over
		o := x.oblig(fmt.Sprintf("%s/loop%d.over", fname, lp.ordinal), "loop-domain", x.propsFor(fr, lc.Over), lp.pos, "the loop ranges over "+lc.Over.Text)
		var dom ssa.Value
		for _, in := range lp.head.Instrs {
			switch v := in.(type) {
			case *ssa.Next:
				if r, ok := v.Iter.(*ssa.Range); ok {
					dom = r.X
				}
			case *ssa.BinOp:
				if v.Op == token.LSS && dom == nil {
					if c, ok := v.Y.(*ssa.Call); ok {
						if b, ok := c.Call.Value.(*ssa.Builtin); ok && b.Name() == "len" && len(c.Call.Args) == 1 {
							dom = c.Call.Args[0]
						}
					}
				}
			}
		}
		if dom == nil {
			x.unbound(o, fmt.Errorf("loop %d is not a range loop", lp.ordinal))
		} else {
			func() {
				defer func() {
					if r := recover(); r != nil {
						if ee, ok := r.(evalError); ok {
							x.unbound(o, fmt.Errorf("%s", ee.msg))
							return
						}
						panic(r)
					}
				}()
				want := x.loopEnv(st, fr, lp).eval(lc.Over.Expr)
				eq, ok := valEqual(x.get(fr, dom), want)
				if !ok {
					x.unbound(o, fmt.Errorf("cannot compare the range operand with %s", lc.Over.Text))
					return
				}
				x.check(st, o, eq)
			}()
		}
	}
	if lc != nil && lc.Ordered != nil && entering {
		o := x.oblig(fmt.Sprintf("%s/loop%d.ordered", fname, lp.ordinal), "order", x.propsFor(fr, lc.Ordered), lp.pos, lc.Ordered.Text)
		overMap := false
		for blk := range lp.blocks {
			for _, in := range blk.Instrs {
				if nx, ok := in.(*ssa.Next); ok && !nx.IsString {
					// is this Next the iterator of THIS loop (in its header)?
					if blk == lp.head {
						overMap = true
					}
				}
			}
		}
		if overMap {
			x.check(st, o, "false")
		} else {
			x.check(st, o, "true")
		}
	}
	if lc != nil {
		for _, inv := range lc.Invariants {
			name := fmt.Sprintf("%s/loop%d.invariant#%d.%s", fname, lp.ordinal, inv.Ord, phase)
			o := x.oblig(name, "loop-invariant", x.propsFor(fr, inv), lp.pos, inv.Text)
			goal, err := x.evalClause(x.loopEnv(st, fr, lp), inv)
			if err != nil {
				x.unbound(o, err)
				continue
			}
			x.check(st, o, goal)
		}
	}
	if !entering && lc != nil {
		for _, ens := range lc.Ensures {
			name := fmt.Sprintf("%s/loop%d.iteration-ensures#%d", fname, lp.ordinal, ens.Ord)
			o := x.oblig(name, "loop-iteration", x.propsFor(fr, ens), lp.pos, ens.Text)
			le := x.loopEnv(st, fr, lp)
			if lp.endPos.IsValid() {
				le.pos = lp.endPos
			}
			goal, err := x.evalClause(le, ens)
			if err != nil {
				x.unbound(o, err)
				continue
			}
			x.check(st, o, goal)
		}
	}
	if !entering {
		if lc != nil && lc.Decreases != nil {
			name := fmt.Sprintf("%s/loop%d.decreases", fname, lp.ordinal)
			o := x.oblig(name, "termination", x.propsFor(fr, lc.Decreases), lp.pos, lc.Decreases.Text)
			v, err := x.evalClauseInt(x.loopEnv(st, fr, lp), lc.Decreases)
			if err != nil {
				x.unbound(o, err)
			} else {
				x.check(st, o, "(and (< "+v+" "+ol.variant+") (<= 0 "+ol.variant+"))")
			}
		}
		return
	}
	// havoc what the loop modifies
	for _, a := range lp.modAllocs {
		if c := fr.cells[a]; c != nil {
			nv := x.mkFresh(a.Type().(*types.Pointer).Elem(), a.Comment)
			st.cellv[c] = nv
			if a.Comment == "rangeindex" {
				// hidden index of a range loop: starts at -1 and only increments
				if iv, ok := nv.(Int); ok {
					x.assume("(>= " + iv.T + " (- 1))")
				}
			}
		}
	}
	if lp.writesHeap {
		x.havocHeap(st, "loop")
		x.note("loop in " + fname + " may write the heap through a call: heap havocked at loop head")
	} else if len(lp.heapClasses) > 0 {
		x.havocClasses(st, lp.heapClasses)
		x.note("loop in " + fname + " writes heap classes " + strings.Join(lp.heapClasses, ", ") + ": those havocked at loop head")
	}
	for _, c := range lp.outerCells {
		_ = c
	}
	if lc != nil {
		for _, inv := range lc.Invariants {
			goal, err := x.evalClause(x.loopEnv(st, fr, lp), inv)
			if err == nil {
				x.assume(goal)
			}
		}
		if lc.Decreases != nil {
			if v, err := x.evalClauseInt(x.loopEnv(st, fr, lp), lc.Decreases); err == nil {
				ol.variant = smtSym(x.fresh("variant", "Int"))
				x.assume("(= " + ol.variant + " " + v + ")")
			}
		}
	}
	ol.snap = st.clone()
}

func fnHasRunDefers(fn *ssa.Function) bool {
	for _, b := range fn.Blocks {
		for _, in := range b.Instrs {
			if _, ok := in.(*ssa.RunDefers); ok {
				return true
			}
		}
	}
	return false
}

// atReturn checks the "at return: assert" clauses of the function under
// verification (at the RunDefers that precedes every return).
func (x *Exec) atReturn(st *State, fr *Frame, in ssa.Instruction) {
	if fr.parent != nil || x.fc == nil || len(x.fc.AtReturn) == 0 {
		return
	}
	for _, c := range x.fc.AtReturn {
		env := &Env{x: x, st: st, fr: fr, pos: in.Pos(), pkg: pkgOf(fr.fn), vars: map[string]Val{}, old: x.entryEnv}
		for n, v := range x.paramVals {
			env.vars[n] = v
		}
		if !in.Pos().IsValid() {
			env.pos = x.postEnv(st, fr, nil).pos
		}
		ret, ok := in.(*ssa.Return)
		fromCells := false
		if !ok {
			// at the RunDefers preceding the return: results are still in their cells
			blk := in.Block()
			for _, bi := range blk.Instrs {
				if r2, isRet := bi.(*ssa.Return); isRet {
					ret, ok, fromCells = r2, true, true
				}
			}
		}
		if ok {
			res := fr.fn.Signature.Results()
			for i, r := range ret.Results {
				var v Val
				if fromCells {
					ld, isLoad := r.(*ssa.UnOp)
					if !isLoad {
						continue
					}
					a, isAlloc := ld.X.(*ssa.Alloc)
					if !isAlloc || fr.cells[a] == nil {
						continue
					}
					v = st.cellv[fr.cells[a]]
					if v == nil {
						continue
					}
				} else {
					v = x.get(fr, r)
				}
				env.vars[fmt.Sprintf("result%d", i)] = v
				if i == 0 {
					env.vars["result"] = v
				}
				if i < res.Len() && res.At(i).Name() != "" && res.At(i).Name() != "_" {
					env.vars[res.At(i).Name()] = v
				}
			}
		}
		o := x.oblig(fmt.Sprintf("%s/atreturn#%d", x.curFnName, c.Ord), "at-return", x.propsFor(fr, c), fr.fn.Pos(), "at return: "+c.Text)
		goal, err := x.evalClause(env, c)
		if err != nil {
			x.unbound(o, err)
			continue
		}
		x.check(st, o, goal)
	}
}

func (x *Exec) propsFor(fr *Frame, c *Clause) []string {
	if len(c.Props) > 0 {
		return c.Props
	}
	if fr != nil && fr.fc != nil && len(fr.fc.Props) > 0 {
		return fr.fc.Props
	}
	if x.fc != nil {
		return x.fc.Props
	}
	return nil
}

func (x *Exec) fnDisplay(fr *Frame) string {
	if fr.parent == nil {
		return x.curFnName
	}
	return x.curFnName + "/inl:" + fr.fn.Name()
}

func (x *Exec) unbound(o *Oblig, err error) {
	o.Kind = "unbound"
	o.Text += " [UNBOUND: " + err.Error() + "]"
}

func (x *Exec) evalClause(env *Env, c *Clause) (goal string, err error) {
	defer func() {
		if r := recover(); r != nil {
			if ee, ok := r.(evalError); ok {
				err = fmt.Errorf("%s", ee.msg)
				return
			}
			panic(r)
		}
	}()
	return env.evalBool(c.Expr), nil
}

func (x *Exec) evalClauseInt(env *Env, c *Clause) (t string, err error) {
	defer func() {
		if r := recover(); r != nil {
			if ee, ok := r.(evalError); ok {
				err = fmt.Errorf("%s", ee.msg)
				return
			}
			panic(r)
		}
	}()
	return env.evalInt(c.Expr), nil
}

func pkgOf(fn *ssa.Function) *types.Package {
	for f := fn; f != nil; f = f.Parent() {
		if f.Pkg != nil {
			return f.Pkg.Pkg
		}
	}
	return nil
}

func (x *Exec) get(fr *Frame, v ssa.Value) Val {
	switch c := v.(type) {
	case *ssa.Const:
		return x.constOf(c)
	case *ssa.Function:
		return Func{Fn: c, T: strconv.Itoa(x.eng.funcID(c))}
	case *ssa.Global:
		return Ptr{Ref: strconv.Itoa(x.eng.globalID(c)), Elem: c.Type().(*types.Pointer).Elem()}
	case *ssa.Builtin:
		return Opaque{Typ: c.Type(), T: "0"}
	}
	if val, ok := fr.regs[v]; ok {
		return val
	}
	// undefined (e.g. value from an unmodelled instruction)
	nv := x.mkFresh(v.Type(), "undef_"+v.Name())
	fr.regs[v] = nv
	return nv
}

func (x *Exec) constOf(c *ssa.Const) Val {
	if c.Value == nil {
		return zeroVal(c.Type())
	}
	return constVal(c.Value, c.Type())
}

func (x *Exec) instrs(st *State, fr *Frame, b *ssa.BasicBlock, i int, prev *ssa.BasicBlock, k Kont) {
	for ; i < len(b.Instrs); i++ {
		if x.capped {
			return
		}
		switch in := b.Instrs[i].(type) {
		case *ssa.DebugRef:
		case *ssa.Alloc:
			x.doAlloc(st, fr, in)
		case *ssa.Store:
			addr := x.get(fr, in.Addr)
			val := x.get(fr, in.Val)
			p, ok := addr.(Ptr)
			if !ok {
				x.note("store through unmodelled pointer: heap havocked")
				x.havocHeap(st, "store")
				continue
			}
			x.checkNil(st, fr, in, p)
			x.frameCheck(st, fr, in, p)
			x.guardCheckW(st, fr, in, ptrClass(p), true, false)
			x.storePtr(st, p, val, in.Val.Type())
		case *ssa.UnOp:
			x.doUnOp(st, fr, in)
		case *ssa.BinOp:
			x.doBinOp(st, fr, in)
		case *ssa.Phi:
			// exactly one predecessor on a path
			for j, p := range b.Preds {
				if p == prev {
					fr.regs[in] = x.get(fr, in.Edges[j])
				}
			}
		case *ssa.Extract:
			t := x.get(fr, in.Tuple)
			if tp, ok := t.(Tuple); ok && in.Index < len(tp.E) {
				fr.regs[in] = tp.E[in.Index]
			} else {
				fr.regs[in] = x.mkFresh(in.Type(), "extract")
			}
		case *ssa.FieldAddr:
			base := x.get(fr, in.X)
			p, ok := base.(Ptr)
			if !ok {
				fr.regs[in] = x.mkFresh(in.Type(), "fieldaddr")
				continue
			}
			x.checkNil(st, fr, in, p)
			np := p
			np.Path = append(append([]int{}, p.Path...), in.Field)
			if p.Arr != "" {
				// pointer to struct element of a slice: unsupported precisely; load-modify-store not modelled
				x.note("field address of slice element: abstracted")
				fr.regs[in] = x.mkFresh(in.Type(), "elemfieldaddr")
				continue
			}
			fr.regs[in] = np
		case *ssa.Field:
			base := x.get(fr, in.X)
			if s, ok := base.(Struct); ok && in.Field < len(s.F) {
				fr.regs[in] = s.F[in.Field]
			} else {
				fr.regs[in] = x.mkFresh(in.Type(), "field")
			}
		case *ssa.IndexAddr:
			x.doIndexAddr(st, fr, in)
		case *ssa.Index:
			base := x.get(fr, in.X)
			idx := x.get(fr, in.Index)
			if s, ok := base.(Str); ok {
				it := idx.(Int).T
				x.safety(st, fr, in, "index", "(and (<= 0 "+it+") (< "+it+" "+s.Len+"))")
				v := Int{"(select " + s.Base + " (+ " + s.Off + " " + it + "))"}
				x.assume("(and (<= 0 " + v.T + ") (<= " + v.T + " 255))")
				fr.regs[in] = v
			} else {
				fr.regs[in] = x.mkFresh(in.Type(), "index")
			}
		case *ssa.Lookup:
			x.doLookup(st, fr, in)
		case *ssa.Slice:
			x.doSlice(st, fr, in)
		case *ssa.Convert:
			x.doConvert(st, fr, in)
		case *ssa.ChangeType:
			v := x.get(fr, in.X)
			if s, ok := v.(Struct); ok {
				s.Typ = in.Type()
				v = s
			}
			fr.regs[in] = v
		case *ssa.ChangeInterface:
			fr.regs[in] = x.get(fr, in.X)
		case *ssa.MakeInterface:
			fr.regs[in] = x.makeIface(st, x.get(fr, in.X), in.X.Type())
		case *ssa.TypeAssert:
			if x.doTypeAssert(st, fr, in, b, i, prev, k) {
				return
			}
		case *ssa.MakeSlice:
			ln := x.get(fr, in.Len).(Int).T
			cp := x.get(fr, in.Cap).(Int).T
			arr := x.newRef(st)
			elem := in.Type().Underlying().(*types.Slice).Elem()
			x.safety(st, fr, in, "makeslice", "(and (<= 0 "+ln+") (<= "+ln+" "+cp+"))")
			// zero-initialised: model contents as fresh array with zeros only for Int-like elems
			x.zeroArray(st, arr, elem)
			fr.regs[in] = Slice{arr, "0", ln, cp, elem}
		case *ssa.MakeMap:
			ref := x.newRef(st)
			mt := in.Type().Underlying().(*types.Map)
			m := MapV{ref, mt.Key(), mt.Elem()}
			x.initMap(st, m)
			fr.regs[in] = m
		case *ssa.MapUpdate:
			m, ok := x.get(fr, in.Map).(MapV)
			if !ok {
				x.havocHeap(st, "mapupdate")
				continue
			}
			x.safety(st, fr, in, "nilmap", "(not (= "+m.Ref+" 0))")
			x.guardCheckW(st, fr, in, "M|"+typeKey(m.Key)+"|"+typeKey(m.Elt), true, false)
			if !x.classAllowed("M|" + typeKey(m.Key) + "|" + typeKey(m.Elt)) {
				x.frameCheckRef(st, fr, in, m.Ref, "map")
			}
			x.mapStore(st, m, x.get(fr, in.Key), x.get(fr, in.Value))
		case *ssa.MakeClosure:
			fn := in.Fn.(*ssa.Function)
			var binds []Val
			for _, bnd := range in.Bindings {
				binds = append(binds, x.get(fr, bnd))
			}
			fr.regs[in] = Func{Fn: fn, Binds: binds, T: x.newRef(st)}
		case *ssa.Range:
			fr.regs[in] = x.doRange(st, fr, in)
		case *ssa.Next:
			if x.doNext(st, fr, in, b, i, prev, k) {
				return
			}
		case *ssa.Call:
			x.doCall(st, fr, in, &in.Call, func(st2 *State, o Outcome) {
				if o.Panic {
					x.loopNoPanic(st2, fr, b, in)
					x.propagatePanic(st2, fr, o, k)
					return
				}
				if len(o.Vals) == 1 {
					fr.regs[in] = o.Vals[0]
				} else if len(o.Vals) > 1 {
					fr.regs[in] = Tuple{o.Vals}
				}
				x.instrs(st2, fr, b, i+1, prev, k)
			})
			return
		case *ssa.Defer:
			fnv := x.calleeVal(fr, &in.Call)
			var args []Val
			for _, a := range in.Call.Args {
				args = append(args, x.get(fr, a))
			}
			st.defers[fr.id] = append(st.defers[fr.id], deferred{fn: fnv, args: args, call: &in.Call})
		case *ssa.RunDefers:
			x.atReturn(st, fr, in)
			x.runDefers(st, fr, func(st2 *State, o Outcome) {
				if o.Panic {
					x.propagatePanic(st2, fr, o, k)
					return
				}
				x.instrs(st2, fr, b, i+1, prev, k)
			})
			return
		case *ssa.Go:
			x.note("go statement in " + fr.fn.Name() + ": goroutine body not executed (not modelled)")
		case *ssa.Send, *ssa.Select, *ssa.MakeChan:
			x.note(fmt.Sprintf("channel operation %T in %s: not modelled", in, fr.fn.Name()))
			if v, ok := in.(ssa.Value); ok {
				fr.regs[v] = x.mkFresh(v.Type(), "chan")
			}
		case *ssa.Jump:
			x.block(st, fr, b.Succs[0], b, k)
			return
		case *ssa.If:
			c := x.get(fr, in.Cond).(Bool).T
			x.fork(st, c,
				func(s *State) { x.block(s, fr, b.Succs[0], b, k) },
				func(s *State) { x.block(s, fr, b.Succs[1], b, k) })
			return
		case *ssa.Return:
			if !fnHasRunDefers(fr.fn) {
				x.atReturn(st, fr, in)
			}
			var vals []Val
			for _, r := range in.Results {
				vals = append(vals, x.get(fr, r))
			}
			k(st, Outcome{Vals: vals})
			return
		case *ssa.Panic:
			pv := x.get(fr, in.X)
			x.propagatePanic(st, fr, Outcome{Panic: true, PanicVal: pv}, k)
			return
		default:
			if v, ok := in.(ssa.Value); ok {
				x.note(fmt.Sprintf("instruction %T abstracted (fresh value)", in))
				fr.regs[v] = x.mkFresh(v.Type(), "abs")
			} else {
				x.note(fmt.Sprintf("instruction %T ignored", in))
			}
		}
	}
}

// fork explores both outcomes of condition c.
func (x *Exec) fork(st *State, c string, thenK, elseK func(*State)) {
	if c == "true" {
		thenK(st)
		return
	}
	if c == "false" {
		elseK(st)
		return
	}
	x.paths++
	if x.paths > x.pathCap {
		if !x.capped {
			x.capped = true
			x.note(fmt.Sprintf("path cap %d exceeded", x.pathCap))
		}
		return
	}
	takeThen, takeElse := true, true
	if x.nshards > 1 {
		bit := uint64(1) << uint(x.shard)
		takeThen = x.owners[st.choices+"0"]&bit != 0
		takeElse = x.owners[st.choices+"1"]&bit != 0
	}
	st.fdepth++
	st2 := st.clone()
	st.choices += "0"
	st2.choices += "1"
	if takeThen {
		x.sess.Push()
		x.assume(c)
		if !x.pruneCheck(st) {
			thenK(st)
		}
		x.sess.Pop()
	}
	if takeElse {
		x.sess.Push()
		x.assume(sNot(c))
		if !x.pruneCheck(st2) {
			elseK(st2)
		}
		x.sess.Pop()
	}
}

// leaf records the end of a path (dry pre-pass).
func (x *Exec) leaf(st *State) {
	if x.sess.dry {
		x.dryLeaves = append(x.dryLeaves, st.choices)
	}
}

// pruneCheck reports whether the current path condition is (quickly shown)
// unsatisfiable. Only used to cut exploration; never to discharge anything
// that would otherwise fail (an infeasible path has no obligations).
func (x *Exec) pruneCheck(st *State) bool {
	if x.paths < 12 {
		return false
	}
	if x.nshards > 1 && x.leafCount[st.choices] < 6 {
		return false
	}
	t0 := time.Now()
	r := x.sess.CheckSatT(40)
	x.pruneMs += time.Since(t0).Milliseconds()
	x.pruneN++
	if r == "unsat" {
		x.pruned++
	}
	return r == "unsat"
}

// owns reports whether this shard is responsible for obligations at the
// current point of the path: the lowest-numbered shard owning a leaf below.
func (x *Exec) owns(st *State) bool {
	if x.nshards <= 1 {
		return true
	}
	m := x.owners[st.choices]
	if m == 0 {
		return x.shard == 0
	}
	for i := 0; i < x.nshards; i++ {
		if m&(1<<uint(i)) != 0 {
			return i == x.shard
		}
	}
	return false
}

func (x *Exec) doAlloc(st *State, fr *Frame, in *ssa.Alloc) {
	elem := in.Type().(*types.Pointer).Elem()
	if arr, ok := elem.Underlying().(*types.Array); ok {
		// array object: identity + zeroed contents
		id := x.newRef(st)
		x.zeroArray(st, id, arr.Elem())
		fr.regs[in] = Ptr{Arr: id, Idx: "0", Elem: arr.Elem()}
		return
	}
	if in.Heap && x.eng.escapes(in) {
		ref := x.newRef(st)
		p := Ptr{Ref: ref, Elem: elem}
		x.storePtr(st, p, zeroVal(elem), elem)
		fr.regs[in] = p
		return
	}
	c := fr.cells[in]
	if c == nil {
		c = &Cell{Alloc: in, Frame: fr.id, Name: in.Comment}
		fr.cells[in] = c
	}
	st.cellv[c] = zeroVal(elem)
	fr.regs[in] = Ptr{Cell: c, Elem: elem}
}

func (x *Exec) zeroArray(st *State, id string, elem types.Type) {
	cs := comps(elem)
	for _, c := range cs {
		class := "E|" + typeKey(elem) + c.Suffix
		arr := x.heapArr(st, class, arrSort(2, c.Sort))
		z := ""
		switch c.Sort {
		case "Int":
			z = "((as const (Array Int Int)) 0)"
		case "Bool":
			z = "((as const (Array Int Bool)) false)"
		default:
			continue
		}
		st.heap[class] = "(store " + arr + " " + id + " " + z + ")"
	}
}

func (x *Exec) initMap(st *State, m MapV) {
	class := "M|" + typeKey(m.Key) + "|" + typeKey(m.Elt)
	pres := x.heapArr(st, class+"|has", arrSort(2, "Bool"))
	ln := x.heapArr(st, class+"|len", arrSort(1, "Int"))
	st.heap[class+"|has"] = "(store " + pres + " " + m.Ref + " ((as const (Array Int Bool)) false))"
	st.heap[class+"|len"] = "(store " + ln + " " + m.Ref + " 0)"
}

func (x *Exec) checkNil(st *State, fr *Frame, in ssa.Instruction, p Ptr) {
	if p.Cell != nil || p.Arr != "" {
		return
	}
	if p.Ref == "0" {
		x.safety(st, fr, in, "nilderef", "false")
		return
	}
	x.safety(st, fr, in, "nilderef", "(not (= "+p.Ref+" 0))")
	// after a successful check the pointer is known non-nil on this path
	x.assume("(not (= " + p.Ref + " 0))")
}

// frameCheck: a heap store must target an object in the function's frame.
func (x *Exec) frameCheck(st *State, fr *Frame, in ssa.Instruction, p Ptr) {
	if p.Cell != nil {
		return
	}
	if p.Arr != "" {
		if x.classAllowed("E|" + typeKey(p.Elem)) {
			return
		}
		x.frameCheckRef(st, fr, in, p.Arr, "array")
		return
	}
	names, _ := pathNames(p.Elem, p.Path)
	if x.classAllowed("F|" + typeKey(p.Elem) + names) {
		return
	}
	x.frameCheckRef(st, fr, in, p.Ref, "object")
}

// guardCheck: an access to a lock-protected heap class requires the lock to be held.
func (x *Exec) guardCheck(st *State, fr *Frame, in ssa.Instruction, class string) {
	x.guardCheckW(st, fr, in, class, false, false)
}

// guardCheckW: write=true additionally requires the lock to be held exclusively (a read lock does not
// cover writes). Used for stores, map updates and calls of callees whose frame names a guarded class.
// pattern=true: class is a class pattern from a callee's frame (it may be shorter than the guarded pattern).
func (x *Exec) guardCheckW(st *State, fr *Frame, in ssa.Instruction, class string, write, pattern bool) {
	if x.fc == nil || len(x.fc.Guarded) == 0 {
		return
	}
	for _, g := range x.fc.Guarded {
		hit := false
		for _, c := range g.Classes {
			if class != "" && (strings.Contains(class, c) || (pattern && strings.Contains(c, class))) {
				hit = true
			}
		}
		if !hit {
			continue
		}
		var lockTerm string
		func() {
			defer func() {
				if r := recover(); r != nil {
					if _, ok := r.(evalError); !ok {
						panic(r)
					}
				}
			}()
			if p, ok := x.entryEnv.eval(g.Lock.Expr).(Ptr); ok {
				lockTerm = ptrTerm(p)
			}
		}()
		name := x.curFnName + "/guarded-by(" + g.Lock.Text + ")"
		props := g.Lock.Props
		if len(props) == 0 {
			props = x.fc.Props
		}
		o := x.oblig(name, "guarded-by", props, in.Pos(), "every access to "+strings.Join(g.Classes, ", ")+" happens with "+g.Lock.Text+" held")
		if lockTerm == "" {
			x.unbound(o, fmt.Errorf("lock expression is not a pointer"))
			continue
		}
		x.check(st, o, "(select "+x.heldArr(st)+" "+lockTerm+")")
		if write {
			ow := x.oblig(name+"/exclusive", "guarded-by", props, in.Pos(), "every write to "+strings.Join(g.Classes, ", ")+" (own stores, and calls of functions whose frame names these classes) happens with "+g.Lock.Text+" held exclusively, not through a read lock")
			x.check(st, ow, "(and (select "+x.heldArr(st)+" "+lockTerm+") (not (select "+x.sharedArr(st)+" "+lockTerm+")))")
		}
	}
}

func ptrClass(p Ptr) string {
	if p.Cell != nil {
		return ""
	}
	if p.Arr != "" {
		return "E|" + typeKey(p.Elem)
	}
	names, _ := pathNames(p.Elem, p.Path)
	if _, isStruct := p.Elem.Underlying().(*types.Struct); isStruct || len(p.Path) > 0 {
		return "F|" + typeKey(p.Elem) + names
	}
	return "P|" + typeKey(p.Elem)
}

// classAllowed: does an `assigns class:<substr>` pattern cover this heap class?
func (x *Exec) classAllowed(class string) bool {
	if x.fc == nil {
		return false
	}
	for _, a := range x.fc.Assigns {
		if strings.HasPrefix(a, "class:") && strings.Contains(class, strings.TrimPrefix(a, "class:")) {
			return true
		}
	}
	return false
}

func (x *Exec) frameCheckRef(st *State, fr *Frame, in ssa.Instruction, ref, what string) {
	if x.fc == nil || !x.fc.HasAssign {
		return
	}
	allowed := []string{"(>= " + ref + " " + x.entryAllocW + ")"}
	for _, a := range x.fc.Assigns {
		if a == "nothing" || a == "fresh" || strings.HasPrefix(a, "class:") {
			continue
		}
		// an lvalue pattern naming an object by expression over entry state: "*p" or "p"
		ex, err := parseContractExpr(strings.TrimPrefix(a, "*"))
		if err != nil {
			continue
		}
		func() {
			defer func() {
				if r := recover(); r != nil {
					if _, ok := r.(evalError); !ok {
						panic(r)
					}
				}
			}()
			v := x.entryEnv.eval(ex)
			switch pv := v.(type) {
			case Ptr:
				if pv.Cell == nil && pv.Arr == "" {
					allowed = append(allowed, "(= "+ref+" "+pv.Ref+")")
				}
			case Slice:
				allowed = append(allowed, "(= "+ref+" "+pv.Arr+")")
			case MapV:
				allowed = append(allowed, "(= "+ref+" "+pv.Ref+")")
			}
		}()
	}
	name := x.fnDisplay(fr) + "/assigns"
	o := x.oblig(name, "frame", x.fc.Props, in.Pos(), "assigns "+strings.Join(x.fc.Assigns, ", ")+" (every heap write targets an allowed or freshly allocated "+what+")")
	x.check(st, o, sOr(allowed...))
}

// safety emits an automatic safety obligation for instruction in.
func (x *Exec) safety(st *State, fr *Frame, in ssa.Instruction, kind, goal string) {
	if goal == "true" {
		return
	}
	top := x.fc
	if top != nil && !top.Safety {
		return
	}
	if top != nil && top.Opts["safety.only"] != "" {
		// opt safety.only=kind|kind: only these kinds of automatic safety obligations are generated
		// (the contract says which; the others are stated as not claimed in the evidence notes)
		found := false
		for _, k := range strings.Split(top.Opts["safety.only"], "|") {
			if strings.TrimSpace(k) == kind {
				found = true
			}
		}
		if !found {
			x.note("safety obligations of kind " + kind + " not generated (opt safety.only=" + top.Opts["safety.only"] + ")")
			return
		}
	}
	name := x.safetyName(fr, in, kind)
	props := []string(nil)
	if x.fc != nil {
		props = x.fc.Props
	}
	o := x.oblig(name, "safety."+kind, props, in.Pos(), kind+" check at "+posStr(x.eng.prog.Fset, in.Pos()))
	if x.check(st, o, goal) {
		return
	}
}

func posStr(fset *token.FileSet, p token.Pos) string {
	if !p.IsValid() {
		return "?"
	}
	pp := fset.Position(p)
	return fmt.Sprintf("%s:%d", relPath(pp.Filename), pp.Line)
}

func (x *Exec) safetyName(fr *Frame, in ssa.Instruction, kind string) string {
	if n, ok := x.safetyNames[in]; ok {
		return n
	}
	fnName := x.fnDisplay(fr)
	// ordinal by order of instructions of this kind within the function (block order)
	key := fnName + "|" + kind
	ord := x.eng.safetyOrdinal(fr.fn, in, kind)
	_ = key
	n := fmt.Sprintf("%s/safe.%s#%d", fnName, kind, ord)
	x.safetyNames[in] = n
	return n
}

func (x *Exec) doUnOp(st *State, fr *Frame, in *ssa.UnOp) {
	v := x.get(fr, in.X)
	switch in.Op {
	case token.MUL:
		p, ok := v.(Ptr)
		if !ok {
			fr.regs[in] = x.mkFresh(in.Type(), "load")
			return
		}
		x.checkNil(st, fr, in, p)
		x.guardCheck(st, fr, in, ptrClass(p))
		lv := x.loadPtr(st, p, in.Type(), true)
		if p.Cell == nil {
			// representation invariants of loaded heap values
			x.assume(x.typeInv(lv, in.Type()))
		}
		fr.regs[in] = lv
	case token.NOT:
		fr.regs[in] = Bool{sNot(v.(Bool).T)}
	case token.SUB:
		switch y := v.(type) {
		case Int:
			fr.regs[in] = x.wrap(Int{"(- " + y.T + ")"}, in.Type())
		case Flt:
			fr.regs[in] = Flt{"(fp.neg " + y.T + ")", y.Bits}
		default:
			fr.regs[in] = x.mkFresh(in.Type(), "neg")
		}
	case token.XOR:
		fr.regs[in] = x.mkFresh(in.Type(), "bitnot")
		x.note("bitwise complement abstracted")
	case token.ARROW:
		fr.regs[in] = x.mkFresh(in.Type(), "recv")
		x.note("channel receive not modelled")
	default:
		fr.regs[in] = x.mkFresh(in.Type(), "unop")
	}
}

// wrap applies machine wrap-around for the integer type t when the function
// is verified in wrap mode; in the default (mathematical) mode the value is
// returned unchanged and an overflow obligation is emitted if requested.
func (x *Exec) wrap(v Int, t types.Type) Val {
	return v
}

func (x *Exec) doBinOp(st *State, fr *Frame, in *ssa.BinOp) {
	a, b := x.get(fr, in.X), x.get(fr, in.Y)
	switch in.Op {
	case token.EQL, token.NEQ:
		c, ok := x.equalVals(st, a, b, in.X.Type())
		if !ok {
			c = smtSym(x.fresh("cmp", "Bool"))
			x.note(fmt.Sprintf("comparison of %T values abstracted", a))
		}
		if in.Op == token.NEQ {
			c = sNot(c)
		}
		fr.regs[in] = Bool{c}
		return
	}
	if sa, ok := a.(Str); ok {
		if sb, ok := b.(Str); ok {
			if c, ok := strOrder(in.Op, sa, sb); ok {
				fr.regs[in] = Bool{c}
				return
			}
		}
	}
	switch av := a.(type) {
	case Int:
		bv, ok := b.(Int)
		if !ok {
			fr.regs[in] = x.mkFresh(in.Type(), "binop")
			return
		}
		switch in.Op {
		case token.ADD, token.SUB, token.MUL:
			op := map[token.Token]string{token.ADD: "+", token.SUB: "-", token.MUL: "*"}[in.Op]
			r := Int{"(" + op + " " + av.T + " " + bv.T + ")"}
			x.overflow(st, fr, in, r)
			fr.regs[in] = r
		case token.QUO:
			x.safety(st, fr, in, "divzero", "(not (= "+bv.T+" 0))")
			fr.regs[in] = Int{"(godiv " + av.T + " " + bv.T + ")"}
		case token.REM:
			x.safety(st, fr, in, "divzero", "(not (= "+bv.T+" 0))")
			fr.regs[in] = Int{"(gomod " + av.T + " " + bv.T + ")"}
		case token.LSS:
			fr.regs[in] = Bool{"(< " + av.T + " " + bv.T + ")"}
		case token.LEQ:
			fr.regs[in] = Bool{"(<= " + av.T + " " + bv.T + ")"}
		case token.GTR:
			fr.regs[in] = Bool{"(> " + av.T + " " + bv.T + ")"}
		case token.GEQ:
			fr.regs[in] = Bool{"(>= " + av.T + " " + bv.T + ")"}
		case token.SHL:
			if n, ok := smtIntLit(bv.T); ok && n >= 0 && n < 63 {
				r := Int{"(* " + av.T + " " + pow2(int(n)) + ")"}
				x.overflow(st, fr, in, r)
				fr.regs[in] = r
			} else {
				fr.regs[in] = x.mkFresh(in.Type(), "shl")
				x.note("shift by non-constant abstracted")
			}
		case token.SHR:
			if n, ok := smtIntLit(bv.T); ok && n >= 0 && n < 63 {
				fr.regs[in] = Int{"(div " + av.T + " " + pow2(int(n)) + ")"}
			} else {
				fr.regs[in] = x.mkFresh(in.Type(), "shr")
				x.note("shift by non-constant abstracted")
			}
		case token.AND, token.OR, token.XOR, token.AND_NOT:
			fr.regs[in] = x.bitop(in.Op, av, bv, in.Type())
		default:
			fr.regs[in] = x.mkFresh(in.Type(), "binop")
		}
	case Flt:
		bv, ok := b.(Flt)
		if !ok {
			fr.regs[in] = x.mkFresh(in.Type(), "fbinop")
			return
		}
		fr.regs[in] = binop(in.Op, av, bv, "float op")
	case Str:
		bv, ok := b.(Str)
		if ok && in.Op == token.ADD {
			fr.regs[in] = x.concat(st, av, bv)
			return
		}
		fr.regs[in] = x.mkFresh(in.Type(), "strop")
		x.note("string ordering comparison abstracted")
	case Bool:
		// & | on bools do not occur in SSA (short-circuit is control flow)
		fr.regs[in] = x.mkFresh(in.Type(), "boolop")
	default:
		fr.regs[in] = x.mkFresh(in.Type(), "binop")
	}
}

func smtIntLit(t string) (int64, bool) {
	n, err := strconv.ParseInt(t, 10, 64)
	return n, err == nil
}

// bitop: bitwise and/or/xor as uninterpreted functions constrained by the
// sign and magnitude facts that hold for two's-complement integers of any
// width (sound, not complete). int2bv bridges are avoided: no installed
// solver decides them in useful time.
func (x *Exec) bitop(op token.Token, a, b Int, t types.Type) Val {
	name := map[token.Token]string{token.AND: "bitand", token.OR: "bitor", token.XOR: "bitxor"}[op]
	if name == "" {
		x.note("and-not abstracted")
		return x.mkFresh(t, "andnot")
	}
	if !x.declared[name] {
		x.declared[name] = true
		x.sess.Decl("(declare-fun " + name + " (Int Int) Int)")
	}
	x.note("bitwise " + name + " modelled by sign/magnitude facts (uninterpreted otherwise)")
	r := "(" + name + " " + a.T + " " + b.T + ")"
	switch op {
	case token.OR:
		x.assume("(=> (or (< " + a.T + " 0) (< " + b.T + " 0)) (< " + r + " 0))")
		x.assume("(=> (< " + a.T + " 0) (>= " + r + " " + a.T + "))")
		x.assume("(=> (< " + b.T + " 0) (>= " + r + " " + b.T + "))")
		x.assume("(=> (and (>= " + a.T + " 0) (>= " + b.T + " 0)) (and (>= " + r + " " + a.T + ") (>= " + r + " " + b.T + ") (<= " + r + " (+ " + a.T + " " + b.T + "))))")
	case token.AND:
		x.assume("(=> (or (>= " + a.T + " 0) (>= " + b.T + " 0)) (>= " + r + " 0))")
		x.assume("(=> (>= " + a.T + " 0) (<= " + r + " " + a.T + "))")
		x.assume("(=> (>= " + b.T + " 0) (<= " + r + " " + b.T + "))")
		x.assume("(=> (and (< " + a.T + " 0) (< " + b.T + " 0)) (< " + r + " 0))")
	case token.XOR:
		x.assume("(=> (and (>= " + a.T + " 0) (>= " + b.T + " 0)) (and (>= " + r + " 0) (<= " + r + " (+ " + a.T + " " + b.T + "))))")
	}
	return Int{r}
}

func (x *Exec) concat(st *State, a, b Str) Val {
	if a.Len == "0" {
		return b
	}
	if b.Len == "0" {
		return a
	}
	base := smtSym(x.fresh("cat", "(Array Int Int)"))
	qvCounter++
	q := fmt.Sprintf("q!%d", qvCounter)
	x.assume(fmt.Sprintf("(forall ((%s Int)) (=> (and (<= 0 %s) (< %s %s)) (= (select %s %s) (select %s (+ %s %s)))))", q, q, q, a.Len, base, q, a.Base, a.Off, q))
	x.assume(fmt.Sprintf("(forall ((%s Int)) (=> (and (<= 0 %s) (< %s %s)) (= (select %s (+ %s %s)) (select %s (+ %s %s)))))", q, q, q, b.Len, base, a.Len, q, b.Base, b.Off, q))
	return Str{base, "0", "(+ " + a.Len + " " + b.Len + ")"}
}

func (x *Exec) overflow(st *State, fr *Frame, in *ssa.BinOp, r Int) {
	if x.fc == nil || x.fc.Opts["overflow"] != "checked" {
		return
	}
	b, ok := in.Type().Underlying().(*types.Basic)
	if !ok || !isIntegerBasic(b) {
		return
	}
	lo, hi := intRange(b)
	x.safety(st, fr, in, "overflow", "(and (<= "+lo+" "+r.T+") (<= "+r.T+" "+hi+"))")
}

func (x *Exec) equalVals(st *State, a, b Val, t types.Type) (string, bool) {
	// interface == interface: dynamic type and payload must agree. The payload
	// comparison is faithful when every implementation of the static interface
	// type is identity-boxed (pointers, integers, bools, maps, funcs); for other
	// interfaces (interface{}, error, ...) it is faithful only for such tags.
	if ia, ok := a.(Iface); ok {
		if ib, ok := b.(Iface); ok {
			if ib.Tag == "0" {
				return sEq(ia.Tag, "0"), true
			}
			if ia.Tag == "0" {
				return sEq(ib.Tag, "0"), true
			}
			eq := "(and (= " + ia.Tag + " " + ib.Tag + ") (= " + ia.Pay + " " + ib.Pay + "))"
			if x.eng.ifaceAllIdentity(t) {
				return eq, true
			}
			// unknown boxing: equal tag+payload implies equal; otherwise undetermined
			u := smtSym(x.fresh("ifaceeq", "Bool"))
			x.note("comparison of interface values of type " + typeKey(t) + ": exact only when both hold identity-boxed values")
			return "(or " + eq + " (and (= " + ia.Tag + " " + ib.Tag + ") (not (identityboxed " + ia.Tag + ")) " + u + "))", true
		}
	}
	return valEqual(a, b)
}

func (x *Exec) doIndexAddr(st *State, fr *Frame, in *ssa.IndexAddr) {
	base := x.get(fr, in.X)
	idx, ok := x.get(fr, in.Index).(Int)
	if !ok {
		fr.regs[in] = x.mkFresh(in.Type(), "indexaddr")
		return
	}
	switch s := base.(type) {
	case Slice:
		x.safety(st, fr, in, "index", "(and (<= 0 "+idx.T+") (< "+idx.T+" "+s.Len+"))")
		fr.regs[in] = Ptr{Arr: s.Arr, Idx: "(+ " + s.Off + " " + idx.T + ")", Elem: s.Elem}
	case Ptr:
		if s.Arr != "" {
			// pointer to array
			if at, ok := in.X.Type().(*types.Pointer).Elem().Underlying().(*types.Array); ok {
				x.safety(st, fr, in, "index", "(and (<= 0 "+idx.T+") (< "+idx.T+" "+strconv.FormatInt(at.Len(), 10)+"))")
			}
			fr.regs[in] = Ptr{Arr: s.Arr, Idx: "(+ " + s.Idx + " " + idx.T + ")", Elem: s.Elem}
			return
		}
		fr.regs[in] = x.mkFresh(in.Type(), "indexaddr")
		x.note("index address through non-array pointer abstracted")
	default:
		fr.regs[in] = x.mkFresh(in.Type(), "indexaddr")
	}
}

func (x *Exec) doLookup(st *State, fr *Frame, in *ssa.Lookup) {
	base := x.get(fr, in.X)
	switch s := base.(type) {
	case Str:
		it := x.get(fr, in.Index).(Int).T
		x.safety(st, fr, in, "index", "(and (<= 0 "+it+") (< "+it+" "+s.Len+"))")
		v := Int{"(select " + s.Base + " (+ " + s.Off + " " + it + "))"}
		x.assume("(and (<= 0 " + v.T + ") (<= " + v.T + " 255))")
		fr.regs[in] = v
	case MapV:
		k := x.get(fr, in.Index)
		x.guardCheck(st, fr, in, "M|"+typeKey(s.Key)+"|"+typeKey(s.Elt))
		v := x.mapLoad(st, s, k)
		x.assume(x.typeInv(v, s.Elt))
		if in.CommaOk {
			fr.regs[in] = Tuple{[]Val{v, Bool{x.mapHas(st, s, k)}}}
		} else {
			fr.regs[in] = v
		}
	default:
		fr.regs[in] = x.mkFresh(in.Type(), "lookup")
	}
}

func (x *Exec) doSlice(st *State, fr *Frame, in *ssa.Slice) {
	base := x.get(fr, in.X)
	lo := "0"
	if in.Low != nil {
		lo = x.get(fr, in.Low).(Int).T
	}
	switch s := base.(type) {
	case Slice:
		hi := s.Len
		if in.High != nil {
			hi = x.get(fr, in.High).(Int).T
		}
		mx := s.Cap
		if in.Max != nil {
			mx = x.get(fr, in.Max).(Int).T
		}
		x.safety(st, fr, in, "slice", "(and (<= 0 "+lo+") (<= "+lo+" "+hi+") (<= "+hi+" "+mx+") (<= "+mx+" "+s.Cap+"))")
		fr.regs[in] = Slice{s.Arr, sApp("+", s.Off, lo), sApp("-", hi, lo), sApp("-", mx, lo), s.Elem}
	case Str:
		hi := s.Len
		if in.High != nil {
			hi = x.get(fr, in.High).(Int).T
		}
		x.safety(st, fr, in, "slice", "(and (<= 0 "+lo+") (<= "+lo+" "+hi+") (<= "+hi+" "+s.Len+"))")
		fr.regs[in] = Str{s.Base, sApp("+", s.Off, lo), sApp("-", hi, lo)}
	case Ptr:
		if s.Arr != "" {
			at, _ := in.X.Type().(*types.Pointer).Elem().Underlying().(*types.Array)
			n := "0"
			if at != nil {
				n = strconv.FormatInt(at.Len(), 10)
			}
			hi := n
			if in.High != nil {
				hi = x.get(fr, in.High).(Int).T
			}
			x.safety(st, fr, in, "slice", "(and (<= 0 "+lo+") (<= "+lo+" "+hi+") (<= "+hi+" "+n+"))")
			fr.regs[in] = Slice{s.Arr, sApp("+", s.Idx, lo), sApp("-", hi, lo), sApp("-", n, lo), s.Elem}
			return
		}
		fr.regs[in] = x.mkFresh(in.Type(), "slice")
	default:
		fr.regs[in] = x.mkFresh(in.Type(), "slice")
	}
}

func (x *Exec) doConvert(st *State, fr *Frame, in *ssa.Convert) {
	v := x.get(fr, in.X)
	from, to := in.X.Type().Underlying(), in.Type().Underlying()
	switch tv := v.(type) {
	case Int:
		if tb, ok := to.(*types.Basic); ok {
			switch {
			case isIntegerBasic(tb):
				fb, _ := from.(*types.Basic)
				fr.regs[in] = x.narrow(tv, fb, tb)
				return
			case tb.Info()&types.IsFloat != 0:
				bits := 64
				eb, sb := "11", "53"
				if tb.Kind() == types.Float32 {
					bits, eb, sb = 32, "8", "24"
				}
				fr.regs[in] = Flt{"((_ to_fp " + eb + " " + sb + ") RNE (to_real " + tv.T + "))", bits}
				return
			case tb.Info()&types.IsString != 0:
				// string(rune): abstract
				fr.regs[in] = x.mkFresh(in.Type(), "runestr")
				x.note("string(rune) conversion abstracted")
				return
			}
		}
	case Flt:
		if tb, ok := to.(*types.Basic); ok {
			switch {
			case tb.Info()&types.IsFloat != 0:
				if tb.Kind() == types.Float32 && tv.Bits == 64 {
					fr.regs[in] = Flt{"((_ to_fp 8 24) RNE " + tv.T + ")", 32}
				} else if tb.Kind() == types.Float64 && tv.Bits == 32 {
					fr.regs[in] = Flt{"((_ to_fp 11 53) RNE " + tv.T + ")", 64}
				} else {
					fr.regs[in] = tv
				}
				return
			case isIntegerBasic(tb):
				// float -> int: truncation; out-of-range / NaN result is unspecified
				r := smtSym(x.fresh("f2i", "Int"))
				lo, hi := intRange(tb)
				tr := "(fp.roundToIntegral RTZ " + tv.T + ")"
				x.assume("(and (<= " + lo + " " + r + ") (<= " + r + " " + hi + "))")
				inRange := "(and (not (fp.isNaN " + tv.T + ")) (not (fp.isInfinite " + tv.T + ")) (<= (to_real " + lo + ") (fp.to_real " + tr + ")) (<= (fp.to_real " + tr + ") (to_real " + hi + ")))"
				x.assume("(=> " + inRange + " (= (to_real " + r + ") (fp.to_real " + tr + ")))")
				fr.regs[in] = Int{r}
				return
			}
		}
	case Str:
		if _, ok := to.(*types.Slice); ok {
			// []byte(s): fresh array with the same contents
			arr := x.newRef(st)
			elem := to.(*types.Slice).Elem()
			h := x.heapArr(st, "E|"+typeKey(elem), arrSort(2, "Int"))
			cont := smtSym(x.fresh("bytesof", "(Array Int Int)"))
			qvCounter++
			q := fmt.Sprintf("q!%d", qvCounter)
			x.assume(fmt.Sprintf("(forall ((%s Int)) (=> (and (<= 0 %s) (< %s %s)) (= (select %s %s) (select %s (+ %s %s)))))", q, q, q, tv.Len, cont, q, tv.Base, tv.Off, q))
			st.heap["E|"+typeKey(elem)] = "(store " + h + " " + arr + " " + cont + ")"
			fr.regs[in] = Slice{arr, "0", tv.Len, tv.Len, elem}
			return
		}
		if tb, ok := to.(*types.Basic); ok && tb.Info()&types.IsString != 0 {
			fr.regs[in] = tv
			return
		}
	case Slice:
		if tb, ok := to.(*types.Basic); ok && tb.Info()&types.IsString != 0 {
			fr.regs[in] = x.sliceToStr(st, tv)
			return
		}
	}
	fr.regs[in] = x.mkFresh(in.Type(), "convert")
	x.note(fmt.Sprintf("conversion %s -> %s abstracted", typeKey(in.X.Type()), typeKey(in.Type())))
}

// narrow models integer conversion: identity when the target range contains
// the source range, modular otherwise.
func (x *Exec) narrow(v Int, from, to *types.Basic) Val {
	if from != nil {
		fb, fs := intWidth(from)
		tb, ts := intWidth(to)
		if fs == ts && tb >= fb {
			return v
		}
		if !fs && ts && tb > fb {
			return v
		}
	}
	tb, ts := intWidth(to)
	m := pow2(tb)
	if !ts {
		return Int{"(mod " + v.T + " " + m + ")"}
	}
	half := pow2(tb - 1)
	r := "(mod (+ " + v.T + " " + half + ") " + m + ")"
	return Int{"(- " + r + " " + half + ")"}
}

func (x *Exec) makeIface(st *State, v Val, t types.Type) Val {
	if iv, ok := v.(Iface); ok {
		return iv
	}
	id := x.eng.typeID(t)
	tag := strconv.Itoa(id)
	switch y := v.(type) {
	case Int:
		return Iface{tag, y.T}
	case Bool:
		return Iface{tag, "(ite " + y.T + " 1 0)"}
	case Ptr:
		if y.Cell == nil && y.Arr == "" && len(y.Path) == 0 {
			return Iface{tag, y.Ref}
		}
	case MapV:
		return Iface{tag, y.Ref}
	case Func:
		return Iface{tag, y.T}
	}
	// boxed payload with unboxing functions
	pay := smtSym(x.fresh("box", "Int"))
	cs := comps(t)
	fs := flatten(v)
	if len(cs) == len(fs) {
		for i, c := range cs {
			fn := x.unboxFn(t, c)
			x.assume("(= (" + fn + " " + pay + ") " + fs[i] + ")")
		}
	}
	x.assume("(< 0 " + pay + ")")
	return Iface{tag, pay}
}

func (x *Exec) unboxFn(t types.Type, c comp) string {
	name := "unbox|" + typeKey(t) + c.Suffix
	if !x.declared[name] {
		x.declared[name] = true
		x.sess.Decl("(declare-fun " + smtSym(name) + " (Int) " + c.Sort + ")")
	}
	return smtSym(name)
}

func (x *Exec) unbox(iv Iface, t types.Type) Val {
	switch u := t.Underlying().(type) {
	case *types.Basic:
		if isIntegerBasic(u) {
			return Int{iv.Pay}
		}
		if u.Info()&types.IsBoolean != 0 {
			return Bool{"(= " + iv.Pay + " 1)"}
		}
	case *types.Pointer:
		return Ptr{Ref: iv.Pay, Elem: u.Elem()}
	case *types.Map:
		return MapV{iv.Pay, u.Key(), u.Elem()}
	case *types.Signature:
		return Func{T: iv.Pay}
	}
	cs := comps(t)
	ts := make([]string, len(cs))
	for i, c := range cs {
		ts[i] = "(" + x.unboxFn(t, c) + " " + iv.Pay + ")"
	}
	v, _ := unflatten(t, ts)
	return v
}

// doTypeAssert returns true if it took over control flow (forked).
func (x *Exec) doTypeAssert(st *State, fr *Frame, in *ssa.TypeAssert, b *ssa.BasicBlock, i int, prev *ssa.BasicBlock, k Kont) bool {
	v := x.get(fr, in.X)
	iv, ok := v.(Iface)
	if !ok {
		fr.regs[in] = x.mkFresh(in.Type(), "typeassert")
		return false
	}
	if _, toIface := in.AssertedType.Underlying().(*types.Interface); toIface {
		// interface-to-interface assertion: succeeds iff dynamic type implements it
		impl := x.eng.implementsPred(x, iv.Tag, in.AssertedType)
		if in.CommaOk {
			okb := impl
			res := iteVal(okb, Val(iv), Val(Iface{"0", "0"}))
			fr.regs[in] = Tuple{[]Val{res, Bool{okb}}}
			return false
		}
		if x.fc != nil && !x.fc.Safety {
			// no safety obligations requested: a failing assertion is a run-time panic path
			x.fork(st, impl,
				func(s *State) {
					fr.regs[in] = iv
					x.instrs(s, fr, b, i+1, prev, k)
				},
				func(s *State) {
					x.propagatePanic(s, fr, Outcome{Panic: true, PanicVal: x.runtimeErrorVal()}, k)
				})
			return true
		}
		x.safety(st, fr, in, "typeassert", impl)
		x.assume(impl)
		fr.regs[in] = iv
		return false
	}
	id := strconv.Itoa(x.eng.typeID(in.AssertedType))
	is := "(= " + iv.Tag + " " + id + ")"
	val := x.unbox(iv, in.AssertedType)
	if in.CommaOk {
		// fork so that the unboxed value keeps its structure
		x.fork(st, is,
			func(s *State) {
				x.assume(x.typeInv(val, in.AssertedType))
				fr.regs[in] = Tuple{[]Val{val, Bool{"true"}}}
				x.instrs(s, fr, b, i+1, prev, k)
			},
			func(s *State) {
				fr.regs[in] = Tuple{[]Val{zeroVal(in.AssertedType), Bool{"false"}}}
				x.instrs(s, fr, b, i+1, prev, k)
			})
		return true
	}
	if x.fc != nil && !x.fc.Safety {
		x.fork(st, is,
			func(s *State) {
				x.assume(x.typeInv(val, in.AssertedType))
				fr.regs[in] = val
				x.instrs(s, fr, b, i+1, prev, k)
			},
			func(s *State) {
				x.propagatePanic(s, fr, Outcome{Panic: true, PanicVal: x.runtimeErrorVal()}, k)
			})
		return true
	}
	x.safety(st, fr, in, "typeassert", is)
	x.assume(is)
	x.assume(x.typeInv(val, in.AssertedType))
	fr.regs[in] = val
	return false
}

// runtimeErrorVal: the value of a run-time panic (*runtime.TypeAssertionError etc.).
func (x *Exec) runtimeErrorVal() Val {
	return Iface{strconv.Itoa(x.eng.typeIDByName("runtime.Error")), "1"}
}

// ---------- range over map / string ----------

type RangeIter struct {
	Over Val
	Pos  string // Int term: number of elements already yielded (strings: byte offset)
	Cell *Cell
}

func (RangeIter) isVal() {}

func (x *Exec) doRange(st *State, fr *Frame, in *ssa.Range) Val {
	return RangeIter{Over: x.get(fr, in.X), Pos: "0"}
}

func (x *Exec) doNext(st *State, fr *Frame, in *ssa.Next, b *ssa.BasicBlock, i int, prev *ssa.BasicBlock, k Kont) bool {
	// The iterator state is not tracked across loop iterations (the loop head
	// havocs); each Next yields an arbitrary element or termination.
	it, _ := x.get(fr, in.Iter).(RangeIter)
	tt := in.Type().(*types.Tuple)
	okb := smtSym(x.fresh("next.ok", "Bool"))
	var kv, vv Val
	kv = x.mkFresh(tt.At(1).Type(), "next.key")
	vv = x.mkFresh(tt.At(2).Type(), "next.val")
	if in.IsString {
		if s, ok := it.Over.(Str); ok {
			ki := kv.(Int)
			x.assume("(=> " + okb + " (and (<= 0 " + ki.T + ") (< " + ki.T + " " + s.Len + ")))")
			x.assume("(=> (= " + s.Len + " 0) (not " + okb + "))")
		}
	} else if m, ok := it.Over.(MapV); ok {
		// yielded keys are present and the value is the stored one
		has := x.mapHas(st, m, kv)
		stored := x.mapLoad(st, m, kv)
		eq, okEq := valEqual(vv, stored)
		if okEq {
			x.assume("(=> " + okb + " (and " + has + " " + eq + "))")
		} else {
			x.assume("(=> " + okb + " " + has + ")")
		}
		x.assume("(=> (= " + x.mapLen(st, m) + " 0) (not " + okb + "))")
	}
	fr.regs[in] = Tuple{[]Val{Bool{okb}, kv, vv}}
	return false
}

// ---------- defers / panics ----------

func (x *Exec) runDefers(st *State, fr *Frame, k Kont) {
	ds := st.defers[fr.id]
	if len(ds) == 0 {
		k(st, Outcome{})
		return
	}
	d := ds[len(ds)-1]
	st.defers[fr.id] = ds[:len(ds)-1]
	x.callValue(st, fr, d.fn, d.args, d.call, nil, func(st2 *State, o Outcome) {
		if o.Panic {
			// a panic in a deferred call replaces the current one
			st2.panicVal = o.PanicVal
		}
		x.runDefers(st2, fr, k)
	})
}

// propagatePanic: the frame fr panics with o; run its defers; if recovered,
// return normally through the Recover block; else pass the panic to k.
func (x *Exec) propagatePanic(st *State, fr *Frame, o Outcome, k Kont) {
	if len(st.defers[fr.id]) == 0 {
		k(st, o)
		return
	}
	st.panicVal = o.PanicVal
	if st.panicVal == nil {
		st.panicVal = Iface{"1", "1"}
	}
	x.runDefers(st, fr, func(st2 *State, o2 Outcome) {
		if st2.panicVal != nil {
			pv := st2.panicVal
			st2.panicVal = nil
			k(st2, Outcome{Panic: true, PanicVal: pv})
			return
		}
		// recovered
		if fr.fn.Recover != nil {
			x.block(st2, fr, fr.fn.Recover, nil, k)
			return
		}
		// no named results: returns zero values
		var vals []Val
		res := fr.fn.Signature.Results()
		for i := 0; i < res.Len(); i++ {
			vals = append(vals, zeroVal(res.At(i).Type()))
		}
		k(st2, Outcome{Vals: vals})
	})
}

// ---------- misc engine helpers ----------

func sortedKeys(m map[string]bool) []string {
	var ks []string
	for k := range m {
		ks = append(ks, k)
	}
	sort.Strings(ks)
	return ks
}

func constInt(v constant.Value) (int64, bool) {
	if v == nil || v.Kind() != constant.Int {
		return 0, false
	}
	return constant.Int64Val(v)
}

var _ = os.Stderr
var _ ast.Node

// strOrder: the lexical order of strings as an uninterpreted strict order strlt on their representation
// (deterministic; not axiomatised): enough to state that a comparison function does or does not use it.
func strOrder(op token.Token, a, b Str) (string, bool) {
	lt := func(p, q Str) string {
		return "(strlt " + p.Base + " " + p.Off + " " + p.Len + " " + q.Base + " " + q.Off + " " + q.Len + ")"
	}
	switch op {
	case token.LSS:
		return lt(a, b), true
	case token.GTR:
		return lt(b, a), true
	case token.LEQ:
		return "(not " + lt(b, a) + ")", true
	case token.GEQ:
		return "(not " + lt(a, b) + ")", true
	}
	return "", false
}

// loopNoPanic: a call in block b of frame fr exits by panic; every loop of fr that contains b and carries a
// "loop N nopanic" clause is left by that panic.
func (x *Exec) loopNoPanic(st *State, fr *Frame, b *ssa.BasicBlock, in ssa.Instruction) {
	if fr.fc == nil || fr.loops == nil {
		return
	}
	for _, lp := range fr.loops.list {
		lc := fr.fc.Loops[lp.ordinal]
		if lc == nil || lc.NoPanic == nil || !lp.blocks[b] {
			continue
		}
		o := x.oblig(fmt.Sprintf("%s/loop%d.nopanic", x.fnDisplay(fr), lp.ordinal), "loop-nopanic", x.propsFor(fr, lc.NoPanic), in.Pos(), lc.NoPanic.Text)
		x.check(st, o, "false")
	}
}
