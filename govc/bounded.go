package main

// Bounded stand-ins: Go test files under /verif/bounded injected through
// `go test -overlay`; their results are reported separately from the
// deductive obligations and never counted as discharged.

import (
	"encoding/json"
	"fmt"
	"os"
	"os/exec"
	"path/filepath"
	"regexp"
	"sort"
	"strings"
	"time"
)

type BoundedSpec struct {
	Name  string
	Props []string
	Pkg   string // directory relative to the repository root
	File  string // file name to inject as
	Run   string // test name
	Path  string // harness source
	Tiers string // "" = both, "thorough" = thorough only
}

type BoundedFailure struct {
	Input   string `json:"input"`
	Why     string `json:"why"`
	Finding string `json:"finding"`
}

type BoundedResult struct {
	Name        string           `json:"name"`
	Bound       string           `json:"bound"`
	Evaluations int              `json:"evaluations"`
	Distinct    int              `json:"distinct_nontrivial"`
	Rule        string           `json:"rule"`
	Exhaustive  bool             `json:"exhaustive"`
	Samples     []interface{}    `json:"samples"`
	Failures    []BoundedFailure `json:"failures"`
	WallS       float64          `json:"wall_s"`
	Error       string           `json:"error,omitempty"`
	Output      string           `json:"-"`
}

var boundedHdr = regexp.MustCompile(`^//bounded:\s*(.*)$`)

func loadBoundedSpecs(verif string) []*BoundedSpec {
	files, _ := filepath.Glob(filepath.Join(verif, "bounded", "*.go.txt"))
	sort.Strings(files)
	var out []*BoundedSpec
	for _, f := range files {
		data, err := os.ReadFile(f)
		if err != nil {
			continue
		}
		first := strings.SplitN(string(data), "\n", 2)[0]
		m := boundedHdr.FindStringSubmatch(first)
		if m == nil {
			continue
		}
		bs := &BoundedSpec{Path: f}
		for _, kv := range strings.Fields(m[1]) {
			p := strings.SplitN(kv, "=", 2)
			if len(p) != 2 {
				continue
			}
			switch p[0] {
			case "name":
				bs.Name = p[1]
			case "props":
				bs.Props = strings.Split(p[1], ",")
			case "pkg":
				bs.Pkg = p[1]
			case "file":
				bs.File = p[1]
			case "run":
				bs.Run = p[1]
			case "tiers":
				bs.Tiers = p[1]
			}
		}
		if bs.Name != "" && bs.Run != "" && bs.File != "" {
			out = append(out, bs)
		}
	}
	return out
}

func runBounded(repo string, bs *BoundedSpec, tier string, seed int) *BoundedResult {
	t0 := time.Now()
	res := &BoundedResult{Name: bs.Name}
	dir := filepath.Join(scratchDir(), "bounded-"+bs.Name)
	os.MkdirAll(dir, 0o755)
	defer os.RemoveAll(dir)
	pkgDir := filepath.Join(repo, bs.Pkg)
	if bs.Pkg == "." {
		pkgDir = repo
	}
	ov := map[string]map[string]string{"Replace": {filepath.Join(pkgDir, bs.File): bs.Path}}
	ovData, _ := json.Marshal(ov)
	ovFile := filepath.Join(dir, "ov.json")
	os.WriteFile(ovFile, ovData, 0o644)
	timeout := "300s"
	if tier == "thorough" {
		timeout = "1500s"
	}
	cmd := exec.Command("go", "test", "-tags", "verif", "-overlay", ovFile, "-vet=off", "-count=1", "-v", "-timeout", timeout, "-run", "^"+bs.Run+"$", ".")
	cmd.Dir = pkgDir
	cmd.Env = append(os.Environ(), "GOFLAGS=-mod=mod", "GOPROXY=off", "GOSUMDB=off", "GOTOOLCHAIN=local", "VERIF_TIER="+tier, fmt.Sprintf("VERIF_SEED=%d", seed))
	out, _ := cmd.CombinedOutput()
	res.Output = string(out)
	res.WallS = time.Since(t0).Seconds()
	found := false
	for _, l := range strings.Split(res.Output, "\n") {
		if strings.HasPrefix(l, "BOUNDED-RESULT ") {
			if err := json.Unmarshal([]byte(strings.TrimPrefix(l, "BOUNDED-RESULT ")), res); err == nil {
				found = true
			}
		}
	}
	res.Name = bs.Name
	if !found {
		tail := res.Output
		if len(tail) > 1500 {
			tail = tail[len(tail)-1500:]
		}
		switch {
		case strings.Contains(res.Output, "panic:") || strings.Contains(res.Output, "fatal error:"):
			res.Error = "the harness crashed (panic / fatal error in the code under test): " + tail
			res.Failures = append(res.Failures, BoundedFailure{Input: "(see output)", Why: res.Error})
		case strings.Contains(res.Output, "test timed out"):
			res.Error = "the harness timed out: " + tail
			res.Failures = append(res.Failures, BoundedFailure{Input: "(see output)", Why: res.Error})
		default:
			res.Error = "no BOUNDED-RESULT line (build failure?): " + tail
		}
	}
	return res
}
