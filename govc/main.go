package main

import (
	"encoding/json"
	"flag"
	"fmt"
	"os"
	"path/filepath"
	"sort"
	"strings"
	"sync"
	"time"
)

func main() {
	if len(os.Args) < 2 {
		fmt.Fprintln(os.Stderr, "usage: govc verify|list [flags]")
		os.Exit(2)
	}
	switch os.Args[1] {
	case "verify":
		os.Exit(cmdVerify(os.Args[2:]))
	case "list":
		os.Exit(cmdList(os.Args[2:]))
	case "sweep":
		os.Exit(cmdSweep(os.Args[2:]))
	case "check":
		os.Exit(cmdCheck(os.Args[2:]))
	default:
		fmt.Fprintln(os.Stderr, "unknown command", os.Args[1])
		os.Exit(2)
	}
}

var loadPatterns = []string{".", "./language/...", "./gqlerrors"}

func cmdList(args []string) int {
	fs := flag.NewFlagSet("list", flag.ExitOnError)
	repo := fs.String("repo", "/repo", "repository")
	fnames := fs.String("fns", "", "list repository functions whose key contains this")
	fs.Parse(args)
	eng, err := LoadEngine(*repo, loadPatterns)
	if err != nil {
		fmt.Fprintln(os.Stderr, "load:", err)
		return 2
	}
	if *fnames != "" {
		var ks []string
		for k := range eng.fnByKey {
			if strings.Contains(k, *fnames) && strings.HasPrefix(k, repoModule) {
				ks = append(ks, k)
			}
		}
		sort.Strings(ks)
		for _, k := range ks {
			fmt.Println(k, eng.prog.Fset.Position(eng.fnByKey[k].Pos()))
		}
		return 0
	}
	var keys []string
	for k := range eng.contracts.Funcs {
		keys = append(keys, k)
	}
	sort.Strings(keys)
	for _, k := range keys {
		fc := eng.contracts.Funcs[k]
		fmt.Printf("%s props=%v bound=%v trusted=%v requires=%d ensures=%d\n", k, fc.Props, fc.Bound, fc.Trusted, len(fc.Requires), len(fc.Ensures))
	}
	return 0
}

func cmdVerify(args []string) int {
	fs := flag.NewFlagSet("verify", flag.ExitOnError)
	repo := fs.String("repo", "/repo", "repository working tree")
	prop := fs.String("prop", "", "property id (empty = all)")
	only := fs.String("func", "", "only functions whose key contains this")
	tier := fs.String("tier", "quick", "quick|thorough")
	out := fs.String("out", "", "write JSON result here")
	verbose := fs.Bool("v", false, "verbose")
	fs.Parse(args)
	t0 := time.Now()
	eng, err := LoadEngine(*repo, loadPatterns)
	if err != nil {
		fmt.Fprintln(os.Stderr, "load:", err)
		return 2
	}
	loadMs := time.Since(t0).Milliseconds()
	opts := VerifyOpts{LiveTimeoutMs: 2000, RaceTimeoutS: 10, PathCap: 6000, InlineDepth: 3}
	if *tier == "thorough" {
		opts = VerifyOpts{LiveTimeoutMs: 5000, RaceTimeoutS: 60, PathCap: 20000, InlineDepth: 3}
	}
	if os.Getenv("GOVC_KEEP") == "" {
		defer os.RemoveAll(scratchDir())
	}
	var todo []*FuncContract
	var keys []string
	for k := range eng.contracts.Funcs {
		keys = append(keys, k)
	}
	sort.Strings(keys)
	for _, k := range keys {
		fc := eng.contracts.Funcs[k]
		if fc.Trusted || !fc.Bound {
			continue
		}
		if eng.fnByKey[k] == nil {
			continue // interface method contract
		}
		if *prop != "" && !hasProp(fc, *prop) {
			continue
		}
		if *only != "" && !strings.Contains(k, *only) {
			continue
		}
		todo = append(todo, fc)
	}
	results := make([]*FuncResult, len(todo))
	var wg sync.WaitGroup
	sem := make(chan struct{}, 14)
	for i, fc := range todo {
		wg.Add(1)
		go func(i int, fc *FuncContract) {
			defer wg.Done()
			sem <- struct{}{}
			defer func() { <-sem }()
			fn := eng.fnByKey[ckey(fc.Pkg, fc.Key)]
			results[i] = eng.VerifyFunction(fn, fc, opts)
		}(i, fc)
	}
	wg.Wait()
	rep := buildReport(eng, results, *prop, *tier, loadMs, time.Since(t0))
	if *verbose {
		printReport(rep, true)
	} else {
		printReport(rep, false)
	}
	if *out != "" {
		os.MkdirAll(filepath.Dir(*out), 0o755)
		data, _ := json.MarshalIndent(rep, "", " ")
		os.WriteFile(*out, data, 0o644)
	}
	if rep.Failed > 0 {
		return 1
	}
	if rep.Obligations == 0 {
		return 2
	}
	return 0
}

func hasProp(fc *FuncContract, p string) bool {
	for _, q := range fc.Props {
		if q == p || q == p+":safety" {
			return true
		}
	}
	all := append(append([]*Clause{}, fc.Requires...), fc.Ensures...)
	for _, lc := range fc.Loops {
		all = append(all, lc.Invariants...)
		all = append(all, lc.Ensures...)
	}
	for _, cs := range fc.CallSites {
		all = append(all, cs.Clause)
	}
	all = append(all, fc.AtReturn...)
	for _, c := range all {
		for _, q := range c.Props {
			if q == p {
				return true
			}
		}
	}
	return false
}

type ObligReport struct {
	Name      string          `json:"name"`
	Function  string          `json:"function"`
	Kind      string          `json:"kind"`
	Props     []string        `json:"props"`
	Pos       string          `json:"pos"`
	Text      string          `json:"text"`
	Instances int             `json:"path_instances"`
	Status    string          `json:"status"` // discharged | failed | unbound
	Engines   map[string]int  `json:"engines"`
	Ms        int64           `json:"solver_ms"`
	Failures  []FailureReport `json:"failures,omitempty"`
	raw       []*Failure
	Sample    string `json:"sample_goal,omitempty"`
}

type FailureReport struct {
	Status  string            `json:"status"`
	Trace   string            `json:"trace"`
	Model   map[string]string `json:"model,omitempty"`
	Outputs map[string]string `json:"solver_outputs,omitempty"`
	Script  string            `json:"script,omitempty"`
}

type FuncReport struct {
	Key     string   `json:"key"`
	Display string   `json:"display"`
	Props   []string `json:"props"`
	Paths   int      `json:"paths"`
	Returns int      `json:"return_paths"`
	Panics  int      `json:"panic_paths"`
	Capped  bool     `json:"capped"`
	Vacuous string   `json:"vacuous,omitempty"`
	Error   string   `json:"error,omitempty"`
	WallMs  int64    `json:"wall_ms"`
	Notes   []string `json:"abstractions"`
	Specs   []string `json:"spec_functions"`
	Inputs  []string `json:"inputs"`
	NOblig  int      `json:"obligations"`
}

type Report struct {
	Property    string         `json:"property"`
	Tier        string         `json:"tier"`
	Functions   []FuncReport   `json:"functions"`
	Obligs      []ObligReport  `json:"obligation_list"`
	Obligations int            `json:"obligations"`
	Discharged  int            `json:"discharged"`
	Failed      int            `json:"failed"`
	Unbound     []string       `json:"unbound"`
	Instances   int            `json:"path_instances"`
	LoadMs      int64          `json:"load_ms"`
	WallMs      int64          `json:"wall_ms"`
	SolverMs    int64          `json:"solver_ms"`
	SolverMaxMs int64          `json:"solver_max_ms"`
	ByEngine    map[string]int `json:"queries_by_engine"`
	Trusted     []string       `json:"trusted_contracts"`
	Files       []string       `json:"contract_files"`
}

func buildReport(eng *Engine, results []*FuncResult, prop, tier string, loadMs int64, wall time.Duration) *Report {
	rep := &Report{Property: prop, Tier: tier, LoadMs: loadMs, WallMs: wall.Milliseconds(), ByEngine: map[string]int{}}
	for _, r := range results {
		if r == nil {
			continue
		}
		fr := FuncReport{Key: r.Key, Display: r.Display, Props: r.Props, Paths: r.Paths, Returns: r.Returns, Panics: r.Panics, Capped: r.Capped,
			Vacuous: r.Vacuous, Error: r.Error, WallMs: r.WallMs, Notes: r.Notes, Specs: r.Specs, Inputs: r.Inputs}
		for _, o := range r.Obligs {
			if prop != "" && !obligMatchesProp(o, prop) {
				continue
			}
			or := ObligReport{Name: o.Name, Function: o.Fn, Kind: o.Kind, Props: o.Props, Pos: o.Pos, Text: o.Text, Instances: o.Instances,
				Engines: o.Engines, Ms: o.Ms, Sample: o.Sample}
			switch {
			case o.Kind == "unbound":
				or.Status = "unbound"
				rep.Unbound = append(rep.Unbound, o.Name+": "+o.Text)
			case len(o.Failures) > 0:
				or.Status = "failed"
				rep.Failed++
				rep.Obligations++
				or.raw = o.Failures
				for _, f := range o.Failures {
					if f.Script == "" && f.Trace == nil {
						continue
					}
					or.Failures = append(or.Failures, FailureReport{Status: f.Status, Trace: compressTrace(f.Trace), Model: f.Model, Outputs: f.Outputs, Script: f.Script})
				}
			default:
				or.Status = "discharged"
				rep.Obligations++
				rep.Discharged++
			}
			rep.Instances += o.Instances
			fr.NOblig++
			rep.Obligs = append(rep.Obligs, or)
		}
		// function-level failures are obligations too
		if r.Error != "" || r.Capped || r.Vacuous != "" {
			what := r.Error
			if r.Capped {
				what = "exploration incomplete (path cap) " + what
			}
			if r.Vacuous != "" {
				what = "vacuity guard: " + r.Vacuous
			}
			rep.Obligations++
			rep.Failed++
			rep.Obligs = append(rep.Obligs, ObligReport{Name: r.Display + "/complete", Function: r.Display, Kind: "completeness", Props: r.Props, Status: "failed", Text: what})
		}
		rep.Functions = append(rep.Functions, fr)
	}
	for k := range eng.contracts.Funcs {
		fc := eng.contracts.Funcs[k]
		if fc.Trusted {
			rep.Trusted = append(rep.Trusted, k)
		}
	}
	sort.Strings(rep.Trusted)
	for _, u := range eng.unbound {
		rep.Unbound = append(rep.Unbound, "contract names no function: "+u)
	}
	for _, f := range eng.contracts.Files {
		rep.Files = append(rep.Files, relPath(f))
	}
	gStats.mu.Lock()
	rep.SolverMs = gStats.WallMs
	rep.SolverMaxMs = gStats.MaxMs
	for k, v := range gStats.ByEngine {
		rep.ByEngine[k] = v
	}
	gStats.mu.Unlock()
	return rep
}

// obligMatchesProp: tags are "Cnn" (all obligations) or "Cnn:safety" (only
// safety / no-panic / termination / frame obligations count for Cnn).
func obligMatchesProp(o *Oblig, prop string) bool {
	if len(o.Props) == 0 {
		return true
	}
	for _, p := range o.Props {
		if p == prop {
			return true
		}
		if p == prop+":safety" {
			k := o.Kind
			if strings.HasPrefix(k, "safety.") || k == "nopanic" || k == "termination" || k == "precondition" || k == "loop-invariant" {
				return true
			}
		}
	}
	return false
}

func contains(xs []string, s string) bool {
	for _, x := range xs {
		if x == s {
			return true
		}
	}
	return false
}

func compressTrace(tr []string) string {
	if len(tr) > 60 {
		tr = append(append([]string{}, tr[:30]...), append([]string{"..."}, tr[len(tr)-29:]...)...)
	}
	return strings.Join(tr, " ")
}

func printReport(rep *Report, verbose bool) {
	for _, f := range rep.Functions {
		fmt.Printf("FUNC %-50s paths=%d returns=%d panics=%d obligations=%d %dms", f.Display, f.Paths, f.Returns, f.Panics, f.NOblig, f.WallMs)
		if f.Error != "" {
			fmt.Printf(" ERROR=%s", f.Error)
		}
		if f.Capped {
			fmt.Printf(" CAPPED")
		}
		if f.Vacuous != "" {
			fmt.Printf(" VACUOUS(%s)", f.Vacuous)
		}
		fmt.Println()
		if verbose {
			for _, n := range f.Notes {
				fmt.Printf("    note: %s\n", n)
			}
		}
	}
	for _, o := range rep.Obligs {
		switch o.Status {
		case "failed":
			fmt.Printf("FAILED %s [%s] %s :: %s\n", o.Name, o.Kind, o.Pos, o.Text)
			for _, f := range o.Failures {
				fmt.Printf("    status=%s model=%v\n    trace=%s\n", f.Status, f.Model, f.Trace)
			}
		case "unbound":
			fmt.Printf("UNBOUND %s :: %s\n", o.Name, o.Text)
		default:
			if verbose {
				fmt.Printf("ok     %s [%s] x%d %v %dms\n", o.Name, o.Kind, o.Instances, o.Engines, o.Ms)
			}
		}
	}
	for _, u := range rep.Unbound {
		if strings.HasPrefix(u, "contract names") {
			fmt.Println("UNBOUND", u)
		}
	}
	fmt.Printf("SUMMARY property=%s functions=%d obligations=%d discharged=%d failed=%d path_instances=%d solver_ms=%d wall_ms=%d engines=%v\n",
		rep.Property, len(rep.Functions), rep.Obligations, rep.Discharged, rep.Failed, rep.Instances, rep.SolverMs, rep.WallMs, rep.ByEngine)
}

// cmdSweep: zero-annotation safety sweep. Every function of the selected package that has no
// contract is verified with an empty contract generating only the chosen kinds of automatic safety
// obligations. Failures are CANDIDATES to triage by hand (inputs are unconstrained), never reported
// as violations by any registered check.
func cmdSweep(args []string) int {
	fs := flag.NewFlagSet("sweep", flag.ExitOnError)
	repo := fs.String("repo", "/repo", "repository working tree")
	pkgSub := fs.String("pkg", "github.com/graphql-go/graphql::", "only function keys with this prefix")
	only := fs.String("func", "", "only functions whose key contains this")
	kinds := fs.String("kinds", "typeassert|nilcall", "safety kinds")
	fs.Parse(args)
	eng, err := LoadEngine(*repo, loadPatterns)
	if err != nil {
		fmt.Fprintln(os.Stderr, "load:", err)
		return 2
	}
	opts := VerifyOpts{LiveTimeoutMs: 1000, RaceTimeoutS: 5, PathCap: 1500, InlineDepth: 1}
	if os.Getenv("GOVC_KEEP") == "" {
		defer os.RemoveAll(scratchDir())
	}
	var keys []string
	for k := range eng.fnByKey {
		if !strings.HasPrefix(k, *pkgSub) || (*only != "" && !strings.Contains(k, *only)) {
			continue
		}
		if fc := eng.contracts.Funcs[k]; fc != nil {
			continue
		}
		if fn := eng.fnByKey[k]; fn == nil || len(fn.Blocks) == 0 || strings.HasSuffix(eng.prog.Fset.Position(fn.Pos()).Filename, "_test.go") {
			continue
		}
		keys = append(keys, k)
	}
	sort.Strings(keys)
	type res struct {
		key string
		r   *FuncResult
	}
	results := make([]res, len(keys))
	var wg sync.WaitGroup
	sem := make(chan struct{}, 14)
	for i, k := range keys {
		wg.Add(1)
		go func(i int, k string) {
			defer wg.Done()
			sem <- struct{}{}
			defer func() { <-sem }()
			parts := strings.SplitN(k, "::", 2)
			fc := &FuncContract{Pkg: parts[0], Key: parts[1], Safety: true, Bound: true, Loops: map[int]*LoopContract{}, Opts: map[string]string{"safety.only": *kinds, "pathcap": "1500"}}
			done := make(chan *FuncResult, 1)
			go func() {
				defer func() {
					if p := recover(); p != nil {
						done <- &FuncResult{Error: fmt.Sprint(p)}
					}
				}()
				done <- eng.VerifyFunction(eng.fnByKey[k], fc, opts)
			}()
			select {
			case r := <-done:
				results[i] = res{k, r}
			case <-time.After(60 * time.Second):
				results[i] = res{k, &FuncResult{Error: "timeout"}}
			}
		}(i, k)
	}
	wg.Wait()
	nf := 0
	for _, r := range results {
		if r.r == nil {
			continue
		}
		if r.r.Error != "" {
			fmt.Printf("SKIP %s: %.100s\n", r.key, r.r.Error)
			continue
		}
		for _, o := range r.r.Obligs {
			if len(o.Failures) > 0 && strings.HasPrefix(o.Kind, "safety.") {
				nf++
				fmt.Printf("CANDIDATE %s %s %s\n", o.Name, o.Kind, o.Pos)
			}
		}
	}
	fmt.Printf("sweep: %d functions, %d candidates\n", len(keys), nf)
	return 0
}
