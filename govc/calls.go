package main

import (
	"fmt"
	"go/ast"
	"go/token"
	"go/types"
	"os"
	"regexp"
	"strconv"
	"strings"

	"golang.org/x/tools/go/ssa"
)

const repoModule = "github.com/graphql-go/graphql"

func (x *Exec) calleeVal(fr *Frame, call *ssa.CallCommon) Val {
	if call.IsInvoke() {
		return x.get(fr, call.Value)
	}
	return x.get(fr, call.Value)
}

// calleeName: a source-level name for the called thing, used to match
// call-site clauses ("at call resolveFn: assert ...").
func calleeName(call *ssa.CallCommon) string {
	if call.IsInvoke() {
		return call.Method.Name()
	}
	switch v := call.Value.(type) {
	case *ssa.Function:
		return v.Name()
	case *ssa.Builtin:
		return v.Name()
	case *ssa.UnOp:
		switch a := v.X.(type) {
		case *ssa.FreeVar:
			return a.Name()
		case *ssa.Alloc:
			return a.Comment
		case *ssa.FieldAddr:
			if st, ok := a.X.Type().(*types.Pointer).Elem().Underlying().(*types.Struct); ok {
				return st.Field(a.Field).Name()
			}
		}
	case *ssa.MakeClosure:
		return v.Fn.Name()
	case *ssa.Field:
		if st, ok := v.X.Type().Underlying().(*types.Struct); ok {
			return st.Field(v.Field).Name()
		}
	}
	return call.Value.Name()
}

func (x *Exec) doCall(st *State, fr *Frame, in ssa.Instruction, call *ssa.CallCommon, k Kont) {
	var args []Val
	for _, a := range call.Args {
		args = append(args, x.get(fr, a))
	}
	if st.calls == nil {
		st.calls = map[string]int{}
	}
	x.callSiteObligations(st, fr, in, call, args)
	cname := calleeName(call)
	st.calls[cname]++
	// per call site: calls("f@k"), returns("f@k"), lastresult("f@k") speak of the k-th call site of f in
	// source order (top frame only), for functions that call the same callee for different purposes
	siteName := ""
	if fr.parent == nil {
		if ord := x.eng.calleeOrdinal(fr.fn, in, cname); ord > 0 {
			siteName = cname + "@" + strconv.Itoa(ord)
			st.calls[siteName]++
		}
	}
	{
		k0 := k
		k = func(s2 *State, o Outcome) {
			if !o.Panic {
				if s2.rets == nil {
					s2.rets = map[string]int{}
				}
				s2.rets[cname]++
				if siteName != "" {
					s2.rets[siteName]++
				}
			}
			if !o.Panic && len(o.Vals) > 0 {
				if s2.lastRes == nil {
					s2.lastRes = map[string]Val{}
				}
				s2.lastRes[cname] = o.Vals[0]
				if siteName != "" {
					s2.lastRes[siteName] = o.Vals[0]
				}
				for i := 1; i < len(o.Vals); i++ {
					s2.lastRes[cname+"#"+strconv.Itoa(i)] = o.Vals[i]
				}
			}
			k0(s2, o)
		}
	}
	if b, ok := call.Value.(*ssa.Builtin); ok && !call.IsInvoke() {
		x.builtin(st, fr, in, b, call, args, k)
		return
	}
	if call.IsInvoke() {
		recv := x.get(fr, call.Value)
		x.invoke(st, fr, in, call, recv, args, k)
		return
	}
	fv := x.get(fr, call.Value)
	x.callValue(st, fr, fv, args, call, in, k)
}

func (x *Exec) callSiteObligations(st *State, fr *Frame, in ssa.Instruction, call *ssa.CallCommon, args []Val) {
	if fr.parent != nil || x.fc == nil || len(x.fc.CallSites) == 0 {
		return
	}
	name := calleeName(call)
	for _, cs := range x.fc.CallSites {
		want := cs.Callee
		if i := strings.Index(want, "#"); i >= 0 {
			// "callee#n": only the n-th call site of that callee in source order
			if want[:i] != name || strconv.Itoa(x.eng.calleeOrdinal(fr.fn, in, name)) != want[i+1:] {
				continue
			}
		} else if want != name {
			continue
		}
		x.note(fmt.Sprintf("cs-hit:%d", cs.Clause.Ord))
		env := &Env{x: x, st: st, fr: fr, pos: in.Pos(), pkg: pkgOf(fr.fn), vars: map[string]Val{}, old: x.entryEnv}
		all := args
		if call.IsInvoke() {
			all = append([]Val{x.get(fr, call.Value)}, args...)
		}
		for i, a := range all {
			env.vars[fmt.Sprintf("arg%d", i)] = a
		}
		oname := fmt.Sprintf("%s/callsite(%s)#%d", x.curFnName, cs.Callee, cs.Clause.Ord)
		o := x.oblig(oname, "callsite", x.propsFor(fr, cs.Clause), in.Pos(), "at call "+cs.Callee+": "+cs.Clause.Text)
		goal, err := x.evalClause(env, cs.Clause)
		if err != nil {
			x.unbound(o, err)
			continue
		}
		o.Kind = "callsite"
		x.check(st, o, goal)
	}
}

func (x *Exec) callValue(st *State, fr *Frame, fv Val, args []Val, call *ssa.CallCommon, in ssa.Instruction, k Kont) {
	if f, ok := fv.(Func); ok && f.Fn != nil {
		x.callStatic(st, fr, f.Fn, f.Binds, args, call, in, k)
		return
	}
	// unknown function value: a callback from outside
	x.callback(st, fr, fv, args, call, in, k)
}

func fullName(fn *ssa.Function) string {
	return fn.String()
}

func (x *Exec) callStatic(st *State, fr *Frame, fn *ssa.Function, binds, args []Val, call *ssa.CallCommon, in ssa.Instruction, k Kont) {
	full := fullName(fn)
	if x.modelExternal(st, fr, fn, full, args, call, in, k) {
		return
	}
	fc := x.eng.contractOf(fn)
	if fc != nil && !fc.Inline && !(fr.parent == nil && fn == x.top && false) {
		x.applyContract(st, fr, fn, fc, args, in, k)
		return
	}
	if x.canInline(fr, fn) {
		nf := x.newFrame(fn, fr)
		nf.binds = binds
		x.runFunction(st, nf, args, func(st2 *State, o Outcome) {
			k(st2, o)
		})
		return
	}
	x.unknownCall(st, fr, fn, full, args, call, in, k)
}

func (x *Exec) canInline(fr *Frame, fn *ssa.Function) bool {
	if len(fn.Blocks) == 0 {
		return false
	}
	p := pkgOf(fn)
	if p == nil || !strings.HasPrefix(p.Path(), repoModule) {
		return false
	}
	// only callees of the package under verification are inlined; calls across
	// packages need a contract (else they are treated as unknown calls)
	if tp := pkgOf(x.top); tp != nil && tp.Path() != p.Path() {
		// exception: tiny leaf functions (getters) of the repository are inlined across packages
		if !x.eng.tinyLeaf(fn) {
			return false
		}
	}
	if fr.depth >= x.inlineDepth {
		return false
	}
	for f := fr; f != nil; f = f.parent {
		if f.fn == fn {
			return false // recursion
		}
	}
	if x.eng.fnSize(fn) > 400 {
		return false
	}
	return true
}

var purePkgs = map[string]bool{
	"fmt": true, "errors": true, "strconv": true, "strings": true, "unicode": true, "unicode/utf8": true,
	"reflect": true, "regexp": true, "math": true, "bytes": true, "context": true, "time": true, "unicode/utf16": true,
	"hash/fnv": true, "encoding/binary": true, "math/bits": true,
}

func isPureExternal(fn *ssa.Function) bool {
	p := pkgOf(fn)
	if p == nil {
		return false
	}
	return purePkgs[p.Path()]
}

// unknownCall: no contract, not inlinable.
func (x *Exec) unknownCall(st *State, fr *Frame, fn *ssa.Function, full string, args []Val, call *ssa.CallCommon, in ssa.Instruction, k Kont) {
	pure := isPureExternal(fn)
	if pure {
		// methods with pointer receivers may modify their receiver
		if recv := fn.Signature.Recv(); recv != nil && len(args) > 0 {
			if _, isPtr := recv.Type().(*types.Pointer); isPtr && !readOnlyMethod(fn.Name()) {
				x.havocPointee(st, args[0])
			}
		}
		x.note("assumed pure, total (no panic): " + full)
	} else {
		x.note("uncontracted call havocs heap, assumed to return: " + full)
		x.havocHeap(st, full)
		for _, a := range args {
			if p, ok := a.(Ptr); ok && p.Cell != nil {
				x.havocPointee(st, a)
			}
		}
	}
	k(st, Outcome{Vals: x.freshResults(fn.Signature.Results(), fn.Name())})
}

func readOnlyMethod(name string) bool {
	switch name {
	case "String", "Len", "Bytes", "Error", "Name", "FindAllIndex", "MatchString", "Split", "FindAllStringIndex", "Cap":
		return true
	}
	return false
}

func (x *Exec) havocPointee(st *State, a Val) {
	p, ok := a.(Ptr)
	if !ok {
		return
	}
	if p.Cell != nil {
		cur := st.cellv[p.Cell]
		t := p.Cell.Alloc.Type().(*types.Pointer).Elem()
		if len(p.Path) == 0 {
			st.cellv[p.Cell] = x.mkFresh(t, p.Cell.Name)
		} else {
			_, leaf := pathNames(t, p.Path)
			st.cellv[p.Cell] = updatePath(cur, p.Path, x.mkFresh(leaf, p.Cell.Name))
		}
		return
	}
	if p.Arr != "" {
		x.havocHeap(st, "element pointer passed to call")
		return
	}
	prefix := "F|" + typeKey(p.Elem)
	for c := range st.heap {
		if strings.HasPrefix(c, prefix) {
			delete(st.heap, c)
		}
	}
	// classes of this type not yet touched must also change epoch: simplest is a full havoc marker
	x.epochCtr++
	st.epoch = x.epochCtr
}

func (x *Exec) freshResults(res *types.Tuple, hint string) []Val {
	var vals []Val
	for i := 0; i < res.Len(); i++ {
		vals = append(vals, x.mkFresh(res.At(i).Type(), "ret_"+hint))
	}
	return vals
}

// callback: call of a function value that is not statically known.
func (x *Exec) callback(st *State, fr *Frame, fv Val, args []Val, call *ssa.CallCommon, in ssa.Instruction, k Kont) {
	sig := call.Signature()
	name := calleeName(call)
	x.safetyNilFunc(st, fr, in, fv)
	mayPanic := false
	pure := false
	if x.fc != nil {
		if _, has := x.fc.Opts["callback."+name]; has {
			x.note("opt-used:callback." + name)
		}
		switch x.fc.Opts["callback."+name] {
		case "maypanic":
			mayPanic = true
		case "pure":
			pure = true
		case "pure,maypanic", "maypanic,pure":
			pure, mayPanic = true, true
		}
	}
	if x.fc != nil && x.fc.Opts["callback."+name] == "self" && x.topFn != nil {
		// a recursive closure calling itself through the variable it is stored in: the call is checked
		// against the contract under verification (requires proved here, ensures assumed); the captured
		// variables are the same cells, and the callee may have assigned any of them
		x.note("callback " + name + ": the closure itself (recursive call): own contract applied, captured variables havocked")
		var pn []string
		for _, p := range x.topFn.Params {
			pn = append(pn, p.Name())
		}
		x.selfApply = true
		x.applyContractSig(st, fr, x.fc, x.topFn.Signature, args, pn, in, k)
		return
	}
	x.note("callback " + name + ": results unconstrained" + map[bool]string{true: ", may panic with any value", false: ", assumed to return"}[mayPanic] + map[bool]string{true: ", assumed not to write library state", false: ", heap havocked"}[pure])
	run := func(s *State) {
		if !pure {
			x.havocHeap(s, "callback "+name)
			for _, a := range args {
				if p, ok := a.(Ptr); ok && p.Cell != nil {
					x.havocPointee(s, a)
				}
			}
		}
		k(s, Outcome{Vals: x.freshResults(sig.Results(), name)})
	}
	if !mayPanic {
		run(st)
		return
	}
	// fork: normal return / panic with arbitrary value
	x.paths++
	st2 := st.clone()
	x.sess.Push()
	run(st)
	x.sess.Pop()
	x.sess.Push()
	if !pure {
		x.havocHeap(st2, "callback "+name+" (panicking)")
	}
	pv := x.mkFresh(types.NewInterfaceType(nil, nil), "panicval").(Iface)
	x.assume("(not (= " + pv.Tag + " 0))")
	k(st2, Outcome{Panic: true, PanicVal: pv})
	x.sess.Pop()
}

func (x *Exec) safetyNilFunc(st *State, fr *Frame, in ssa.Instruction, fv Val) {
	if in == nil {
		return
	}
	if f, ok := fv.(Func); ok {
		x.safety(st, fr, in, "nilcall", "(not (= "+f.T+" 0))")
		x.assume("(not (= " + f.T + " 0))")
	}
}

// invoke: interface method call.
func (x *Exec) invoke(st *State, fr *Frame, in ssa.Instruction, call *ssa.CallCommon, recv Val, args []Val, k Kont) {
	iv, ok := recv.(Iface)
	if ok && in != nil {
		x.safety(st, fr, in, "nilcall", "(not (= "+iv.Tag+" 0))")
		x.assume("(not (= " + iv.Tag + " 0))")
	}
	name := call.Method.Name()
	// method contracts on interface methods: "func <Iface>.<Method>"
	if named, ok := call.Value.Type().(*types.Named); ok && named.Obj().Pkg() != nil {
		if fc := x.eng.contracts.Funcs[ckey(named.Obj().Pkg().Path(), named.Obj().Name()+"."+name)]; fc != nil {
			x.applyContractSig(st, fr, fc, call.Signature(), append([]Val{recv}, args...), []string{"recv"}, in, k)
			return
		}
	}
	sig := call.Signature()
	if x.fc != nil {
		if _, has := x.fc.Opts["invoke."+name]; has {
			x.note("opt-used:invoke." + name)
		}
	}
	if x.fc != nil && strings.Contains(x.fc.Opts["invoke."+name], "maypanic") {
		// a user-supplied implementation: may return anything or panic with any value
		x.note("interface method " + name + ": user callback, results unconstrained, may panic with any value, heap havocked")
		st2 := st.clone()
		x.paths++
		x.sess.Push()
		x.havocHeap(st, "invoke "+name)
		k(st, Outcome{Vals: x.freshResults(sig.Results(), name)})
		x.sess.Pop()
		x.sess.Push()
		x.havocHeap(st2, "invoke "+name+" (panicking)")
		pv := x.mkFresh(types.NewInterfaceType(nil, nil), "panicval").(Iface)
		x.assume("(not (= " + pv.Tag + " 0))")
		k(st2, Outcome{Panic: true, PanicVal: pv})
		x.sess.Pop()
		return
	}
	if x.eng.pureMethod(call.Method) || (x.fc != nil && x.fc.Opts["invoke."+name] == "pure") {
		// deterministic function of receiver (and heap): uninterpreted
		res := sig.Results()
		var vals []Val
		for i := 0; i < res.Len(); i++ {
			cs := comps(res.At(i).Type())
			ts := make([]string, len(cs))
			for j, c := range cs {
				fnm := "meth|" + name + "|" + strconv.Itoa(i) + c.Suffix
				if !x.declared[fnm] {
					x.declared[fnm] = true
					x.sess.Decl("(declare-fun " + smtSym(fnm) + " (Int Int) " + c.Sort + ")")
				}
				if ok {
					ts[j] = "(" + smtSym(fnm) + " " + iv.Tag + " " + iv.Pay + ")"
				} else {
					ts[j] = smtSym(x.fresh("meth", c.Sort))
				}
			}
			v, _ := unflatten(res.At(i).Type(), ts)
			x.assume(x.typeInv(v, res.At(i).Type()))
			vals = append(vals, v)
		}
		x.note("interface method " + name + " assumed pure and deterministic in its receiver")
		k(st, Outcome{Vals: vals})
		return
	}
	x.note("interface method " + name + ": unknown implementation, heap havocked, assumed to return")
	x.havocHeap(st, "invoke "+name)
	k(st, Outcome{Vals: x.freshResults(sig.Results(), name)})
}

// ---------- contracts at call sites ----------

func paramNames(fn *ssa.Function) []string {
	var ns []string
	for _, p := range fn.Params {
		ns = append(ns, p.Name())
	}
	return ns
}

// ghostClauseRE: ghost functions whose meaning is tied to the execution of the function under verification
var ghostClauseRE = regexp.MustCompile(`\b(calls|returns|lastresult|deferred|exitedloop|visitedloop|atloop|heapatloop)\(`)

// topConjuncts: the conjuncts of an expression at the top level (through parentheses and &&)
func topConjuncts(e ast.Expr) []ast.Expr {
	switch n := e.(type) {
	case *ast.ParenExpr:
		return topConjuncts(n.X)
	case *ast.BinaryExpr:
		if n.Op == token.LAND {
			return append(topConjuncts(n.X), topConjuncts(n.Y)...)
		}
	}
	return []ast.Expr{e}
}

// stripGhost weakens a callee postcondition for use at a call site: conjuncts (at the top level and in the
// consequent of an implication) that mention ghost functions tied to the callee's own execution are dropped;
// what remains is implied by the original clause. nil: nothing remains.
func stripGhost(e ast.Expr) ast.Expr {
	if !ghostClauseRE.MatchString(types.ExprString(e)) {
		return e
	}
	switch n := e.(type) {
	case *ast.ParenExpr:
		return stripGhost(n.X)
	case *ast.BinaryExpr:
		if n.Op == token.LAND {
			l, r := stripGhost(n.X), stripGhost(n.Y)
			if l == nil {
				return r
			}
			if r == nil {
				return l
			}
			return &ast.BinaryExpr{X: l, Op: token.LAND, Y: r}
		}
	case *ast.CallExpr:
		if id, ok := n.Fun.(*ast.Ident); ok && id.Name == "implies_" && len(n.Args) == 2 {
			if ghostClauseRE.MatchString(types.ExprString(n.Args[0])) {
				return nil
			}
			if c := stripGhost(n.Args[1]); c != nil {
				return &ast.CallExpr{Fun: n.Fun, Args: []ast.Expr{n.Args[0], c}}
			}
		}
	}
	return nil
}

func (x *Exec) applyContract(st *State, fr *Frame, fn *ssa.Function, fc *FuncContract, args []Val, in ssa.Instruction, k Kont) {
	x.applyContractSig(st, fr, fc, fn.Signature, args, paramNames(fn), in, k)
}

func (x *Exec) applyContractSig(st *State, fr *Frame, fc *FuncContract, sig *types.Signature, args []Val, pnames []string, in ssa.Instruction, k Kont) {
	vars := map[string]Val{}
	for i, n := range pnames {
		if i < len(args) {
			vars[n] = args[i]
		}
	}
	for i, a := range args {
		vars["param"+strconv.Itoa(i)] = a
	}
	// signature param names when pnames short (interface methods)
	off := len(pnames)
	if sig.Recv() != nil && len(pnames) == 1 {
		for i := 0; i < sig.Params().Len() && off+i < len(args); i++ {
			if n := sig.Params().At(i).Name(); n != "" {
				vars[n] = args[off+i]
			}
		}
	}
	var calleePkg *types.Package
	if p := x.eng.typesPkg(fc.Pkg); p != nil {
		calleePkg = p
	}
	pre := st.clone()
	preEnv := &Env{x: x, st: pre, vars: vars, pkg: calleePkg}
	pos := token.NoPos
	if in != nil {
		pos = in.Pos()
	}
	// a closure of the calling function: the names its contract uses for captured variables are the
	// caller's own locals
	closureOfCaller := !x.selfApply && fr != nil && in != nil && strings.HasPrefix(fc.Key, funcKey(fr.fn)+"$") && pkgOf(fr.fn) != nil && fc.Pkg == pkgOf(fr.fn).Path()
	if closureOfCaller {
		preEnv.fr, preEnv.pos = fr, pos
	}
	for _, r := range fc.Requires {
		name := fmt.Sprintf("%s/call(%s)@%s/requires#%d", x.fnDisplay(fr), fc.Key, x.callOrd(fr, in), r.Ord)
		o := x.oblig(name, "precondition", x.propsFor(fr, r), pos, "callee "+fc.Key+" requires "+r.Text)
		goal, err := x.evalClause(preEnv, r)
		if err != nil {
			x.unbound(o, err)
			continue
		}
		if x.check(st, o, goal) {
			x.assume(goal)
		}
	}
	// effects
	frameOK := fc.Pure || (fc.HasAssign && len(fc.Assigns) == 1 && fc.Assigns[0] == "nothing")
	classOnly := fc.HasAssign
	var clsPats []string
	for _, a := range fc.Assigns {
		switch {
		case a == "nothing" || a == "fresh":
		case strings.HasPrefix(a, "class:"):
			clsPats = append(clsPats, "~"+strings.TrimPrefix(a, "class:"))
		default:
			classOnly = false
		}
	}
	if !frameOK && classOnly && in != nil {
		for _, cp := range clsPats {
			x.guardCheckW(st, fr, in, strings.TrimPrefix(cp, "~"), true, true)
		}
	}
	if !frameOK && classOnly {
		x.havocClasses(st, clsPats)
		// objects allocated by the callee lie above the current watermark
		nw := smtSym(x.fresh("allocW", "Int"))
		x.assume("(>= " + nw + " (+ " + st.allocW + " " + strconv.Itoa(st.nAlloc) + "))")
		st.allocW, st.nAlloc = nw, 0
	} else if !frameOK {
		x.havocHeap(st, "call "+fc.Key)
		for _, a := range args {
			if p, ok := a.(Ptr); ok && p.Cell != nil {
				x.havocPointee(st, a)
			}
		}
		if fc.HasAssign {
			// frame: everything not named keeps its value. Supported patterns: param.Field
			x.assumeFrame(st, pre, fc, vars)
		}
	}
	if closureOfCaller {
		// the closure may have assigned any variable it captures
		for a, c := range fr.cells {
			if a.Heap && c != nil {
				if _, live := st.cellv[c]; live {
					st.cellv[c] = x.mkFresh(a.Type().(*types.Pointer).Elem(), a.Comment)
				}
			}
		}
	}
	if x.selfApply {
		x.selfApply = false
		assigned := assignedFreeVars(x.topFn)
		for name, c := range x.freeCells {
			// only the captured variables the closure (or a closure nested in it) assigns; the others
			// still hold what they held (their referents are covered by the frame clause)
			if t := x.freeCellTypes[c]; t != nil && assigned[name] {
				st.cellv[c] = x.mkFresh(t, "free_"+c.Name)
			}
		}
	}
	// caller's frame must include callee's frame
	if !frameOK && x.fc != nil && x.fc.HasAssign && fr.parent == nil {
		x.calleeFrameWithinCaller(st, pre, fr, fc, vars, in)
	}
	res := sig.Results()
	var vals []Val
	postVars := map[string]Val{}
	for n, v := range vars {
		postVars[n] = v
	}
	for i := 0; i < res.Len(); i++ {
		v := x.mkFresh(res.At(i).Type(), "ret_"+fc.Key)
		vals = append(vals, v)
		if n := res.At(i).Name(); n != "" && n != "_" {
			postVars[n] = v
		}
		postVars[fmt.Sprintf("result%d", i)] = v
	}
	// a postcondition `result == p` (a conjunct at the top level) where the argument passed for p points to a
	// local cell of the caller: a symbolic heap pointer can never equal a cell pointer, so the clause would read
	// as false and silently end the path. The result IS the argument.
	for _, e := range fc.Ensures {
		if e.When == "panic" {
			continue
		}
		for _, cj := range topConjuncts(e.Expr) {
			be, ok := cj.(*ast.BinaryExpr)
			if !ok || be.Op != token.EQL {
				continue
			}
			l, lok := be.X.(*ast.Ident)
			r, rok := be.Y.(*ast.Ident)
			if !lok || !rok {
				continue
			}
			if r.Name == "result" || strings.HasPrefix(r.Name, "result") && len(r.Name) == 7 {
				l, r = r, l
			}
			idx := -1
			if l.Name == "result" {
				idx = 0
			} else if strings.HasPrefix(l.Name, "result") && len(l.Name) == 7 && l.Name[6] >= '0' && l.Name[6] <= '9' {
				idx = int(l.Name[6] - '0')
			}
			if idx < 0 || idx >= len(vals) {
				continue
			}
			if a, ok := vars[r.Name].(Ptr); ok && a.Cell != nil {
				vals[idx] = a
				postVars[l.Name] = a
				postVars[fmt.Sprintf("result%d", idx)] = a
				if idx == 0 {
					postVars["result"] = a
				}
				if n := res.At(idx).Name(); n != "" && n != "_" {
					postVars[n] = a
				}
			}
		}
	}
	if len(vals) > 0 && postVars["result"] == nil {
		postVars["result"] = vals[0]
	} else if len(vals) > 0 {
		postVars["result"] = vals[0]
	}
	if fc.Functional {
		for i, v := range vals {
			fv := x.functionalResult(pre, fc, sig, args, i)
			if eq, ok := valEqual(v, fv); ok {
				x.assume(eq)
			}
		}
	}
	postEnv := &Env{x: x, st: st, vars: postVars, pkg: calleePkg, old: preEnv}
	if closureOfCaller {
		postEnv.fr, postEnv.pos = fr, pos
	}
	// vacuity guard: a callee contract whose postconditions contradict the path at the call site would end
	// the path silently and discharge everything after it. For the first applications of every callee the
	// path is probed before and after the postconditions are assumed.
	guard := false
	if !x.sess.dry && len(fc.Ensures) > 0 && in != nil && os.Getenv("GOVC_NOENSGUARD") == "" && fc.Opts["maypanic"] != "true" {
		if x.ensGuard == nil {
			x.ensGuard = map[string]int{}
		}
		if x.ensGuard[fc.Key] < 2 {
			x.ensGuard[fc.Key]++
			guard = x.sess.ProbeStandalone(300) == "sat"
		}
	}
	for _, e := range fc.Ensures {
		if e.When == "panic" {
			continue
		}
		if ghostClauseRE.MatchString(e.Text) {
			// the clause speaks about the callee's own execution (its call counters, what ITS callees
			// returned, its loops): at a call site those ghost functions would denote the CALLER's
			// history (calls("f") == 1 would read as 0 == 1 and silently end the path). Only the part
			// of the clause that does not mention them is assumed.
			w := stripGhost(e.Expr)
			if w == nil {
				x.note("callee contract clause about the callee's own execution not assumed at the call site: " + fc.Key)
				continue
			}
			e = &Clause{Kind: e.Kind, Text: types.ExprString(w), Expr: w, Props: e.Props, Ord: e.Ord, Line: e.Line, When: e.When}
		}
		goal, err := x.evalClause(postEnv, e)
		if err != nil {
			x.note("callee contract clause not evaluable at call site: " + fc.Key + ": " + err.Error())
			continue
		}
		x.assume(goal)
	}
	if guard && x.sess.ProbeStandalone(300) == "unsat" {
		name := fmt.Sprintf("%s/call(%s)@%s/ensures-consistent", x.fnDisplay(fr), fc.Key, x.callOrd(fr, in))
		o := x.oblig(name, "vacuity", x.propsFor(fr, &Clause{}), pos, "the postconditions of "+fc.Key+" contradict the path at this call site (the path would end silently)")
		o.Kind = "vacuity"
		if d := os.Getenv("GOVC_DUMPVAC"); d != "" {
			os.WriteFile(d, []byte(x.sess.Dump()+"(check-sat)\n"), 0o644)
		}
		if len(o.Failures) == 0 {
			o.Failures = append(o.Failures, &Failure{Status: "contradictory-callee-contract", Trace: append([]string(nil), st.trace...)})
		}
	}
	if fc.Opts["maypanic"] == "true" {
		st2 := st.clone()
		x.paths++
		x.sess.Push()
		k(st, Outcome{Vals: vals})
		x.sess.Pop()
		x.sess.Push()
		pv := x.mkFresh(types.NewInterfaceType(nil, nil), "panicval").(Iface)
		x.assume("(not (= " + pv.Tag + " 0))")
		pEnv := &Env{x: x, st: st2, vars: map[string]Val{"panicval": pv}, pkg: calleePkg, old: preEnv}
		for n, v := range vars {
			pEnv.vars[n] = v
		}
		for _, e := range fc.Ensures {
			if e.When != "panic" || ghostClauseRE.MatchString(e.Text) {
				continue
			}
			if goal, err := x.evalClause(pEnv, e); err == nil {
				x.assume(goal)
			}
		}
		k(st2, Outcome{Panic: true, PanicVal: pv})
		x.sess.Pop()
		return
	}
	k(st, Outcome{Vals: vals})
}

// assumeFrame: after a havoc caused by a callee with an assigns clause, the
// heap classes not mentioned keep their pre-state arrays.
func (x *Exec) assumeFrame(st, pre *State, fc *FuncContract, vars map[string]Val) {
	// classes named by patterns of the form Type.Field or param.Field
	touched := map[string]bool{}
	wild := false
	for _, a := range fc.Assigns {
		if a == "nothing" || a == "fresh" {
			continue
		}
		if strings.HasPrefix(a, "class:") {
			touched[strings.TrimPrefix(a, "class:")] = true
			continue
		}
		wild = true
	}
	if wild {
		return
	}
	for c, t := range pre.heap {
		keep := true
		for tc := range touched {
			if strings.Contains(c, tc) {
				keep = false
			}
		}
		if keep {
			st.heap[c] = t
		}
	}
}

// calleeFrameWithinCaller: a caller with a frame clause may only call callees
// whose own frame is known and contained in it.
func (x *Exec) calleeFrameWithinCaller(st, pre *State, fr *Frame, fc *FuncContract, vars map[string]Val, in ssa.Instruction) {
	name := x.curFnName + "/assigns"
	pos := token.NoPos
	if in != nil {
		pos = in.Pos()
	}
	o := x.oblig(name, "frame", x.fc.Props, pos, "assigns "+strings.Join(x.fc.Assigns, ", "))
	if !fc.HasAssign {
		o.Text += " [callee " + fc.Key + " has no frame clause]"
		o.Kind = "vacuity"
		if len(o.Failures) == 0 {
			o.Failures = append(o.Failures, &Failure{Status: "contradictory-callee-contract", Trace: append([]string(nil), st.trace...)})
		}
		return
	}
	for _, a := range fc.Assigns {
		if a == "fresh" || a == "nothing" {
			continue
		}
		covered := false
		if strings.HasPrefix(a, "class:") {
			cp := strings.TrimPrefix(a, "class:")
			for _, b := range x.fc.Assigns {
				if strings.HasPrefix(b, "class:") && strings.Contains(cp, strings.TrimPrefix(b, "class:")) {
					covered = true
				}
			}
		}
		if !covered {
			o.Text += " [callee " + fc.Key + " may write " + a + "]"
			o.Kind = "vacuity"
		if len(o.Failures) == 0 {
			o.Failures = append(o.Failures, &Failure{Status: "contradictory-callee-contract", Trace: append([]string(nil), st.trace...)})
		}
			return
		}
	}
}

func (x *Exec) callOrd(fr *Frame, in ssa.Instruction) string {
	if in == nil {
		return "defer"
	}
	return strconv.Itoa(x.eng.safetyOrdinal(fr.fn, in, "call"))
}

// ---------- builtins ----------

func (x *Exec) builtin(st *State, fr *Frame, in ssa.Instruction, b *ssa.Builtin, call *ssa.CallCommon, args []Val, k Kont) {
	ret := func(vs ...Val) { k(st, Outcome{Vals: vs}) }
	switch b.Name() {
	case "len":
		switch s := args[0].(type) {
		case Slice:
			ret(Int{s.Len})
		case Str:
			ret(Int{s.Len})
		case MapV:
			ret(Int{x.mapLen(st, s)})
		default:
			ret(x.mkFresh(types.Typ[types.Int], "len"))
		}
	case "cap":
		if s, ok := args[0].(Slice); ok {
			ret(Int{s.Cap})
		} else {
			ret(x.mkFresh(types.Typ[types.Int], "cap"))
		}
	case "append":
		x.doAppend(st, fr, in, call, args, k)
	case "copy":
		x.note("builtin copy: destination array havocked")
		if d, ok := args[0].(Slice); ok {
			x.frameCheckRef(st, fr, in, d.Arr, "array")
			class := "E|" + typeKey(d.Elem)
			for c := range st.heap {
				if strings.HasPrefix(c, class) {
					arr := st.heap[c]
					st.heap[c] = "(store " + arr + " " + d.Arr + " " + smtSym(x.fresh("copied", sortOfInner(c, d.Elem))) + ")"
				}
			}
		}
		ret(x.mkFresh(types.Typ[types.Int], "copy"))
	case "delete":
		if m, ok := args[0].(MapV); ok {
			kt, _, okk := x.mapKeyTerm(args[1])
			class := "M|" + typeKey(m.Key) + "|" + typeKey(m.Elt)
			if !x.classAllowed(class) {
				x.frameCheckRef(st, fr, in, m.Ref, "map")
			}
			if okk {
				pres := x.heapArr(st, class+"|has", arrSort(2, "Bool"))
				ln := x.heapArr(st, class+"|len", arrSort(1, "Int"))
				had := "(select (select " + pres + " " + m.Ref + ") " + kt + ")"
				st.heap[class+"|len"] = "(store " + ln + " " + m.Ref + " (ite " + had + " (- (select " + ln + " " + m.Ref + ") 1) (select " + ln + " " + m.Ref + ")))"
				st.heap[class+"|has"] = nestedStore(pres, []string{m.Ref, kt}, "false")
			} else {
				x.havocHeap(st, "delete")
			}
		}
		ret()
	case "recover":
		if st.panicVal != nil {
			pv := st.panicVal
			st.panicVal = nil
			ret(pv)
		} else {
			ret(Iface{"0", "0"})
		}
	case "print", "println":
		ret()
	case "ssa:wrapnilchk":
		ret(args[0])
	case "min", "max":
		if a, ok := args[0].(Int); ok && len(args) == 2 {
			if bb, ok := args[1].(Int); ok {
				if b.Name() == "min" {
					ret(Int{sIte("(<= "+a.T+" "+bb.T+")", a.T, bb.T)})
				} else {
					ret(Int{sIte("(>= "+a.T+" "+bb.T+")", a.T, bb.T)})
				}
				return
			}
		}
		ret(x.mkFresh(call.Signature().Results().At(0).Type(), b.Name()))
	default:
		x.note("builtin " + b.Name() + " abstracted")
		ret(x.freshResults(call.Signature().Results(), b.Name())...)
	}
}

func sortOfInner(class string, elem types.Type) string {
	for _, c := range comps(elem) {
		if strings.HasSuffix(class, c.Suffix) {
			return "(Array Int " + c.Sort + ")"
		}
	}
	return "(Array Int Int)"
}

// doAppend models append exactly for its aliasing behaviour: in place when
// capacity suffices (a heap write into the argument's backing array, subject
// to the frame), a fresh array otherwise.
func (x *Exec) doAppend(st *State, fr *Frame, in ssa.Instruction, call *ssa.CallCommon, args []Val, k Kont) {
	s, ok := args[0].(Slice)
	if !ok {
		k(st, Outcome{Vals: []Val{x.mkFresh(call.Args[0].Type(), "append")}})
		return
	}
	var addLen string
	var src Val
	if len(args) < 2 {
		k(st, Outcome{Vals: []Val{s}})
		return
	}
	switch a := args[1].(type) {
	case Slice:
		addLen, src = a.Len, a
	case Str:
		addLen, src = a.Len, a
	default:
		k(st, Outcome{Vals: []Val{x.mkFresh(call.Args[0].Type(), "append")}})
		return
	}
	if addLen == "0" {
		k(st, Outcome{Vals: []Val{s}})
		return
	}
	newLen := "(+ " + s.Len + " " + addLen + ")"
	fits := "(<= " + newLen + " " + s.Cap + ")"
	cs := comps(s.Elem)
	// No fork: the result is in place when capacity suffices and a fresh array
	// otherwise; both cases are merged with ite so that a sequence of appends
	// does not multiply the number of paths.
	freshArr := x.newRef(st)
	ncap := smtSym(x.fresh("newcap", "Int"))
	x.assume("(and (>= " + ncap + " " + newLen + ") (<= " + ncap + " 4611686018427387904))")
	arr := sIte(fits, s.Arr, freshArr)
	off := sIte(fits, s.Off, "0")
	if !x.classAllowed("E|"+typeKey(s.Elem)) && x.fc != nil && x.fc.HasAssign && x.owns(st) {
		// in-place case is a write into the argument's backing array
		x.sess.Push()
		x.assume(fits)
		x.frameCheckRef(st, fr, in, s.Arr, "array (append in place)")
		x.sess.Pop()
	}
	for _, c := range cs {
		class := "E|" + typeKey(s.Elem) + c.Suffix
		h := x.heapArr(st, class, arrSort(2, c.Sort))
		var srcElem func(q string) string
		switch sv := src.(type) {
		case Slice:
			srcElem = func(q string) string {
				return "(select (select " + h + " " + sv.Arr + ") (+ " + sv.Off + " " + q + "))"
			}
		case Str:
			srcElem = func(q string) string { return "(select " + sv.Base + " (+ " + sv.Off + " " + q + "))" }
		}
		nc := smtSym(x.fresh("appended", "(Array Int "+c.Sort+")"))
		qvCounter++
		q := fmt.Sprintf("q!%d", qvCounter)
		if n, isLit := smtIntLit(addLen); isLit && n <= 8 {
			for jj := int64(0); jj < n; jj++ {
				x.assume("(= (select " + nc + " (+ " + off + " " + s.Len + " " + strconv.FormatInt(jj, 10) + ")) " + srcElem(strconv.FormatInt(jj, 10)) + ")")
			}
		} else {
			x.assume(fmt.Sprintf("(forall ((%s Int)) (=> (and (<= 0 %s) (< %s %s)) (= (select %s (+ %s %s %s)) %s)))", q, q, q, addLen, nc, off, s.Len, q, srcElem(q)))
		}
		// old elements preserved
		x.assume(fmt.Sprintf("(forall ((%s Int)) (=> (and (<= 0 %s) (< %s %s)) (= (select %s (+ %s %s)) (select (select %s %s) (+ %s %s)))))", q, q, q, s.Len, nc, off, q, h, s.Arr, s.Off, q))
		// in place: everything outside the written window is unchanged
		x.assume(fmt.Sprintf("(=> %s (forall ((%s Int)) (=> (or (< %s (+ %s %s)) (>= %s (+ %s %s %s))) (= (select %s %s) (select (select %s %s) %s)))))", fits, q, q, s.Off, s.Len, q, s.Off, s.Len, addLen, nc, q, h, s.Arr, q))
		st.heap[class] = "(store " + h + " " + arr + " " + nc + ")"
	}
	k(st, Outcome{Vals: []Val{Slice{arr, off, newLen, sIte(fits, s.Cap, ncap), s.Elem}}})
}

func (x *Exec) copiedPrefix(st *State, h string, s Slice, arr string, sort string) string {
	nc := smtSym(x.fresh("grown", "(Array Int "+sort+")"))
	qvCounter++
	q := fmt.Sprintf("q!%d", qvCounter)
	x.assume(fmt.Sprintf("(forall ((%s Int)) (=> (and (<= 0 %s) (< %s %s)) (= (select %s %s) (select (select %s %s) (+ %s %s)))))", q, q, q, s.Len, nc, q, h, s.Arr, s.Off, q))
	return nc
}

// ---------- modelled externals ----------

func (x *Exec) modelExternal(st *State, fr *Frame, fn *ssa.Function, full string, args []Val, call *ssa.CallCommon, in ssa.Instruction, k Kont) bool {
	ret := func(vs ...Val) bool { k(st, Outcome{Vals: vs}); return true }
	switch full {
	case "errors.New", "fmt.Errorf":
		// a non-nil error with a fresh identity
		ref := x.newRef(st)
		id := x.eng.typeIDByName("*errors.errorString")
		if full == "fmt.Errorf" {
			id = x.eng.typeIDByName("*fmt.wrapError")
		}
		return ret(Iface{strconv.Itoa(id), ref})
	case "fmt.Sprintf", "fmt.Sprint", "fmt.Sprintln":
		v := x.mkFresh(types.Typ[types.String], "sprintf")
		return ret(v)
	case "(*sync.Mutex).Lock", "(*sync.Mutex).Unlock", "(*sync.RWMutex).Lock", "(*sync.RWMutex).Unlock", "(*sync.RWMutex).RLock", "(*sync.RWMutex).RUnlock":
		x.lockOp(st, fr, in, full, args)
		return ret()
	case "sort.Strings", "sort.Ints", "sort.Float64s":
		// elements are permuted in place; ghost flag sorted[arr] is set
		if sl, ok := args[0].(Slice); ok {
			x.frameCheckRef(st, fr, in, sl.Arr, "array (sorted in place)")
			class := "E|" + typeKey(sl.Elem)
			for c := range st.heap {
				if strings.HasPrefix(c, class) {
					st.heap[c] = "(store " + st.heap[c] + " " + sl.Arr + " " + smtSym(x.fresh("sortedcontents", sortOfInner(c, sl.Elem))) + ")"
				}
			}
			if st.ghost == nil {
				st.ghost = map[string]string{}
			}
			st.ghost["sorted"] = "(store " + x.ghostArr(st, "sorted") + " " + sl.Arr + " true)"
			x.note("sort." + fn.Name() + ": contents of the slice unconstrained afterwards; ghost flag sorted(slice) set (not reset by later element writes)")
			return ret()
		}
	case "sort.Sort", "sort.Stable":
		// sort.Sort(sort.StringSlice(x)) / IntSlice: same effect as sort.Strings on the boxed slice
		if iv, ok := args[0].(Iface); ok {
			for _, tn := range []string{"sort.StringSlice", "sort.IntSlice"} {
				t := x.eng.typeByName(tn)
				if t == nil {
					continue
				}
				id := strconv.Itoa(x.eng.typeID(t))
				if sl, ok := x.unbox(iv, t).(Slice); ok {
					if st.ghost == nil {
						st.ghost = map[string]string{}
					}
					g := x.ghostArr(st, "sorted")
					st.ghost["sorted"] = "(ite (= " + iv.Tag + " " + id + ") (store " + g + " " + sl.Arr + " true) " + g + ")"
				}
			}
			x.note("sort.Sort: treated as sorting the boxed StringSlice/IntSlice in place (ghost flag sorted set); other sort.Interface values: heap havocked")
			x.havocClasses(st, []string{"E|string", "E|int"})
			return ret()
		}
	case "math.IsNaN":
		if f, ok := args[0].(Flt); ok {
			return ret(Bool{"(fp.isNaN " + f.T + ")"})
		}
	case "math.IsInf":
		if f, ok := args[0].(Flt); ok {
			if s, ok2 := args[1].(Int); ok2 {
				return ret(Bool{"(and (fp.isInfinite " + f.T + ") (or (= " + s.T + " 0) (and (> " + s.T + " 0) (fp.isPositive " + f.T + ")) (and (< " + s.T + " 0) (fp.isNegative " + f.T + "))))"})
			}
		}
	case "context.Background":
		return ret(Iface{strconv.Itoa(x.eng.typeIDByName("context.backgroundCtx")), "1"})
	}
	return false
}

func (x *Exec) ghostArr(st *State, name string) string {
	if st.ghost == nil {
		st.ghost = map[string]string{}
	}
	if a, ok := st.ghost[name]; ok {
		return a
	}
	st.ghost[name] = "((as const (Array Int Bool)) false)"
	return st.ghost[name]
}

func (x *Exec) heldArr(st *State) string {
	if st.ghost == nil {
		st.ghost = map[string]string{}
	}
	if a, ok := st.ghost["held"]; ok {
		return a
	}
	st.ghost["held"] = "((as const (Array Int Bool)) false)"
	return st.ghost["held"]
}

// lockOp: sync.Mutex as ghost state held(mu). Lock requires !held (no
// self-deadlock), Unlock requires held.
func (x *Exec) lockOp(st *State, fr *Frame, in ssa.Instruction, full string, args []Val) {
	if len(args) == 0 {
		return
	}
	p, ok := args[0].(Ptr)
	if !ok {
		return
	}
	id := ptrTerm(p)
	arr := x.heldArr(st)
	lock := strings.HasSuffix(full, "Lock") && !strings.HasSuffix(full, "Unlock")
	name := x.fnDisplay(fr) + "/lock-discipline"
	props := []string(nil)
	if x.fc != nil {
		props = x.fc.Props
	}
	pos := token.NoPos
	if in != nil {
		pos = in.Pos()
	}
	o := x.oblig(name, "lock-discipline", props, pos, "Lock only when not held, Unlock only when held (ghost held(mu))")
	shared := x.sharedArr(st)
	isShared := strings.HasSuffix(full, "RLock") || strings.HasSuffix(full, "RUnlock")
	if lock {
		x.check(st, o, "(not (select "+arr+" "+id+"))")
		st.ghost["held"] = "(store " + arr + " " + id + " true)"
		// a read lock is held, but not exclusively: writes to what the lock guards are not covered by it
		st.ghost["shared"] = "(store " + shared + " " + id + " " + map[bool]string{true: "true", false: "false"}[isShared] + ")"
	} else {
		x.check(st, o, "(select "+arr+" "+id+")")
		// the unlock must match the way the lock was taken
		x.check(st, o, "(= (select "+shared+" "+id+") "+map[bool]string{true: "true", false: "false"}[isShared]+")")
		st.ghost["held"] = "(store " + arr + " " + id + " false)"
		st.ghost["shared"] = "(store " + shared + " " + id + " false)"
	}
}

func (x *Exec) sharedArr(st *State) string {
	if st.ghost == nil {
		st.ghost = map[string]string{}
	}
	if a, ok := st.ghost["shared"]; ok {
		return a
	}
	st.ghost["shared"] = "((as const (Array Int Bool)) false)"
	return st.ghost["shared"]
}

// functionalSnapshot flattens argument values, snapshotting byte slices as
// immutable sequences so the result is a function of contents, not identity.
func (x *Exec) functionalArgs(st *State, args []Val) []string {
	var ts []string
	for _, a := range args {
		if s, ok := a.(Slice); ok && st != nil {
			a = x.sliceToStr(st, s)
		}
		ts = append(ts, flatten(a)...)
	}
	return ts
}

func functionalDecls(fc *FuncContract, sig *types.Signature) []string {
	var argSorts []string
	add := func(t types.Type) {
		if _, ok := t.Underlying().(*types.Slice); ok {
			argSorts = append(argSorts, "(Array Int Int)", "Int", "Int")
			return
		}
		for _, c := range comps(t) {
			argSorts = append(argSorts, c.Sort)
		}
	}
	if sig.Recv() != nil {
		add(sig.Recv().Type())
	}
	for i := 0; i < sig.Params().Len(); i++ {
		add(sig.Params().At(i).Type())
	}
	var out []string
	for i := 0; i < sig.Results().Len(); i++ {
		for _, c := range comps(sig.Results().At(i).Type()) {
			name := fmt.Sprintf("fnres|%s|%d%s", fc.Key, i, c.Suffix)
			out = append(out, "(declare-fun "+smtSym(name)+" ("+strings.Join(argSorts, " ")+") "+c.Sort+")")
		}
	}
	return out
}

func (x *Exec) functionalResult(st *State, fc *FuncContract, sig *types.Signature, args []Val, i int) Val {
	ats := x.functionalArgs(st, args)
	rt := sig.Results().At(i).Type()
	cs := comps(rt)
	ts := make([]string, len(cs))
	for j, c := range cs {
		name := fmt.Sprintf("fnres|%s|%d%s", fc.Key, i, c.Suffix)
		ts[j] = sApp(smtSym(name), ats...)
	}
	v, _ := unflatten(rt, ts)
	return v
}

// assignedFreeVars: names of the captured variables that fn, or a closure nested in it, stores to.
func assignedFreeVars(fn *ssa.Function) map[string]bool {
	out := map[string]bool{}
	var walk func(f *ssa.Function)
	walk = func(f *ssa.Function) {
		for _, b := range f.Blocks {
			for _, in := range b.Instrs {
				if st, ok := in.(*ssa.Store); ok {
					if fv, ok := st.Addr.(*ssa.FreeVar); ok {
						out[fv.Name()] = true
					}
				}
			}
		}
		for _, a := range f.AnonFuncs {
			walk(a)
		}
	}
	walk(fn)
	return out
}
