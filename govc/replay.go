package main

// Replay: turn a solver model of a failed obligation into concrete Go inputs,
// call the REAL function through an in-package test injected with
// `go test -overlay`, and evaluate the contract clauses on what it returns.

import (
	"bufio"
	_ "embed"
	"encoding/json"
	"fmt"
	"go/types"
	"io"
	"os"
	"os/exec"
	"path/filepath"
	"sort"
	"strconv"
	"strings"
	"time"

	"golang.org/x/tools/go/ssa"
)

//go:embed replayrt/interp.go.txt
var interpSource string

type ModelSession struct {
	cmd *exec.Cmd
	in  io.WriteCloser
	out *bufio.Reader
}

func NewModelSession(script string, extra []string, timeoutS int) (*ModelSession, string) {
	m := &ModelSession{}
	m.cmd = exec.Command("z3-new", "-in", "-smt2", fmt.Sprintf("-T:%d", timeoutS*4))
	in, _ := m.cmd.StdinPipe()
	out, _ := m.cmd.StdoutPipe()
	if err := m.cmd.Start(); err != nil {
		return nil, "unknown"
	}
	m.in = in
	m.out = bufio.NewReaderSize(out, 1<<20)
	fmt.Fprintf(m.in, "(set-option :produce-models true)\n(set-option :timeout %d)\n", timeoutS*1000)
	io.WriteString(m.in, script)
	for _, e := range extra {
		io.WriteString(m.in, e+"\n")
	}
	io.WriteString(m.in, "(check-sat)\n")
	for {
		l, err := m.out.ReadString('\n')
		if err != nil {
			m.Close()
			return nil, "unknown"
		}
		l = strings.TrimSpace(l)
		if l == "sat" {
			return m, "sat"
		}
		if l == "unsat" || l == "unknown" || l == "timeout" {
			m.Close()
			return nil, l
		}
	}
}

func (m *ModelSession) Close() {
	m.in.Close()
	m.cmd.Process.Kill()
	m.cmd.Wait()
}

// Eval returns the model value of term as an s-expression string ("" on error).
func (m *ModelSession) Eval(term string) string {
	io.WriteString(m.in, "(get-value ("+term+"))\n")
	var buf strings.Builder
	depth, started := 0, false
	for {
		l, err := m.out.ReadString('\n')
		if err != nil {
			return ""
		}
		buf.WriteString(l)
		for _, c := range l {
			if c == '(' {
				depth++
				started = true
			} else if c == ')' {
				depth--
			}
		}
		if strings.HasPrefix(strings.TrimSpace(l), "(error") {
			return ""
		}
		if started && depth <= 0 {
			break
		}
	}
	// ((term value))
	s := strings.TrimSpace(buf.String())
	s = strings.TrimSuffix(strings.TrimPrefix(s, "(("), "))")
	return lastSexp(s)
}

func (m *ModelSession) EvalInt(term string) (int64, bool) {
	v := m.Eval(term)
	v = strings.TrimSpace(v)
	if strings.HasPrefix(v, "(-") {
		n, err := strconv.ParseInt(strings.TrimSpace(strings.Trim(v[2:], "() ")), 10, 64)
		return -n, err == nil
	}
	n, err := strconv.ParseInt(v, 10, 64)
	return n, err == nil
}

// ---------- input reconstruction ----------

type replayCtx struct {
	x       *Exec
	m       *ModelSession
	pkg     *types.Package
	imports map[string]string // path -> name
	lens    []string          // length terms to bound (first pass)
	first   bool              // first (symbolic) pass: only collect length terms
	bad     string
}

func (rc *replayCtx) qual(p *types.Package) string {
	if p == rc.pkg {
		return ""
	}
	rc.imports[p.Path()] = p.Name()
	return p.Name()
}

func (rc *replayCtx) typeStr(t types.Type) string { return types.TypeString(t, rc.qual) }

// entry heap array name for a class, if the symbolic execution ever read it
func (rc *replayCtx) entryArr(class string) (string, bool) {
	name := fmt.Sprintf("H|%s|e0", class)
	if rc.x.declared[name] {
		return smtSym(name), true
	}
	return "", false
}

func (rc *replayCtx) entryLoad(prefix string, idx []string, t types.Type) (Val, bool) {
	cs := comps(t)
	if len(cs) == 0 {
		return zeroVal(t), true
	}
	ts := make([]string, len(cs))
	any := false
	for i, c := range cs {
		arr, ok := rc.entryArr(prefix + c.Suffix)
		if !ok {
			// never read: any value will do; use the zero of the sort
			switch c.Sort {
			case "Bool":
				ts[i] = "false"
			case "Int":
				ts[i] = "0"
			default:
				ts[i] = ""
			}
			continue
		}
		any = true
		term := arr
		for _, ix := range idx {
			term = "(select " + term + " " + ix + ")"
		}
		ts[i] = term
	}
	for _, t := range ts {
		if t == "" {
			return zeroVal(t2(t)), false
		}
	}
	v, _ := unflatten(t, ts)
	return v, any
}

func t2(string) types.Type { return types.Typ[types.Int] }

const maxReplayLen = 24

func (rc *replayCtx) intOf(term string) (int64, bool) {
	if n, ok := smtIntLit(term); ok {
		return n, true
	}
	if rc.first {
		return 0, true
	}
	return rc.m.EvalInt(term)
}

// lit produces a Go expression for the value v of type t in the model.
func (rc *replayCtx) lit(v Val, t types.Type, depth int) string {
	if depth > 4 {
		return "*new(" + rc.typeStr(t) + ")"
	}
	zero := "*new(" + rc.typeStr(t) + ")"
	switch y := v.(type) {
	case Int:
		n, ok := rc.intOf(y.T)
		if !ok {
			rc.bad = "no model value for " + y.T
			return zero
		}
		return rc.typeStr(t) + "(" + strconv.FormatInt(n, 10) + ")"
	case Bool:
		if rc.first {
			return "false"
		}
		return strings.TrimSpace(rc.m.Eval(y.T))
	case Flt:
		if rc.first {
			return zero
		}
		val := strings.TrimSpace(rc.m.Eval(y.T))
		f, ok := parseFP(val)
		if !ok {
			rc.bad = "cannot read float model value " + val
			return zero
		}
		if y.Bits == 32 {
			return fmt.Sprintf("%s(math.Float32frombits(0x%x))", rc.typeStr(t), f)
		}
		return fmt.Sprintf("%s(math.Float64frombits(0x%x))", rc.typeStr(t), f)
	case Str:
		rc.lens = append(rc.lens, y.Len)
		n, _ := rc.intOf(y.Len)
		if rc.first {
			return zero
		}
		if n > maxReplayLen {
			rc.bad = "string too long in model"
			return zero
		}
		off, _ := rc.intOf(y.Off)
		var bs []byte
		for i := int64(0); i < n; i++ {
			b, _ := rc.m.EvalInt("(select " + y.Base + " " + strconv.FormatInt(off+i, 10) + ")")
			bs = append(bs, byte(b))
		}
		return rc.typeStr(t) + "(" + strconv.Quote(string(bs)) + ")"
	case Slice:
		rc.lens = append(rc.lens, y.Len)
		if rc.first {
			// elements may contain further lengths: visit a few
			for i := 0; i < 3; i++ {
				ev, _ := rc.entryLoad("E|"+typeKey(y.Elem), []string{y.Arr, "(+ " + y.Off + " " + strconv.Itoa(i) + ")"}, y.Elem)
				rc.lit(ev, y.Elem, depth+1)
			}
			return zero
		}
		arr, _ := rc.intOf(y.Arr)
		if arr == 0 {
			return rc.typeStr(t) + "(nil)"
		}
		n, _ := rc.intOf(y.Len)
		if n > maxReplayLen {
			rc.bad = "slice too long in model"
			return zero
		}
		off, _ := rc.intOf(y.Off)
		var elems []string
		for i := int64(0); i < n; i++ {
			ev, _ := rc.entryLoad("E|"+typeKey(y.Elem), []string{strconv.FormatInt(arr, 10), strconv.FormatInt(off+i, 10)}, y.Elem)
			elems = append(elems, rc.lit(ev, y.Elem, depth+1))
		}
		return rc.typeStr(t) + "{" + strings.Join(elems, ", ") + "}"
	case Ptr:
		if y.Cell != nil || y.Arr != "" {
			return zero
		}
		pt, ok := t.Underlying().(*types.Pointer)
		if !ok {
			return zero
		}
		if !rc.first {
			ref, _ := rc.intOf(y.Ref)
			if ref == 0 {
				return "(" + rc.typeStr(t) + ")(nil)"
			}
		}
		st, isStruct := pt.Elem().Underlying().(*types.Struct)
		if !isStruct {
			ev, _ := rc.entryLoad("P|"+typeKey(pt.Elem()), []string{y.Ref}, pt.Elem())
			inner := rc.lit(ev, pt.Elem(), depth+1)
			return "func() " + rc.typeStr(t) + " { v := " + inner + "; return &v }()"
		}
		var fields []string
		for i := 0; i < st.NumFields(); i++ {
			f := st.Field(i)
			if !f.Exported() && f.Pkg() != rc.pkg {
				continue
			}
			fv, read := rc.entryLoad("F|"+typeKey(pt.Elem())+"."+f.Name(), []string{y.Ref}, f.Type())
			if !read && !rc.first {
				continue
			}
			fields = append(fields, f.Name()+": "+rc.lit(fv, f.Type(), depth+1))
		}
		return "&" + rc.typeStr(pt.Elem()) + "{" + strings.Join(fields, ", ") + "}"
	case Struct:
		st := t.Underlying().(*types.Struct)
		var fields []string
		for i := 0; i < st.NumFields() && i < len(y.F); i++ {
			f := st.Field(i)
			if !f.Exported() && f.Pkg() != rc.pkg {
				continue
			}
			fields = append(fields, f.Name()+": "+rc.lit(y.F[i], f.Type(), depth+1))
		}
		return rc.typeStr(t) + "{" + strings.Join(fields, ", ") + "}"
	case Iface:
		if rc.first {
			return zero
		}
		tag, _ := rc.intOf(y.Tag)
		if tag == 0 {
			return zero
		}
		rc.x.eng.mu.Lock()
		ct := rc.x.eng.typeByID[int(tag)]
		rc.x.eng.mu.Unlock()
		if ct == nil {
			rc.bad = fmt.Sprintf("model picks an unknown dynamic type (tag %d) for an interface input", tag)
			return zero
		}
		pv := rc.x.unbox(y, ct)
		inner := rc.lit(pv, ct, depth+1)
		return rc.typeStr(t) + "(" + inner + ")"
	}
	return zero
}

func parseFP(v string) (uint64, bool) {
	// (fp #b0 #b10000000000 #b000...) or (_ +zero 11 53) etc.
	v = strings.TrimSpace(v)
	if strings.HasPrefix(v, "(fp ") {
		parts := strings.Fields(strings.Trim(v[3:], "() "))
		if len(parts) != 3 {
			return 0, false
		}
		bits := ""
		for _, p := range parts {
			p = strings.Trim(p, "()")
			if strings.HasPrefix(p, "#b") {
				bits += p[2:]
			} else if strings.HasPrefix(p, "#x") {
				n, err := strconv.ParseUint(p[2:], 16, 64)
				if err != nil {
					return 0, false
				}
				bits += fmt.Sprintf("%0*b", 4*len(p[2:]), n)
			}
		}
		n, err := strconv.ParseUint(bits, 2, 64)
		return n, err == nil
	}
	fields := strings.Fields(strings.Trim(v, "()"))
	if len(fields) == 4 && fields[0] == "_" {
		eb, _ := strconv.Atoi(fields[2])
		sb, _ := strconv.Atoi(fields[3])
		total := eb + sb
		switch fields[1] {
		case "+zero":
			return 0, true
		case "-zero":
			return 1 << uint(total-1), true
		case "+oo":
			return ((1 << uint(eb)) - 1) << uint(sb-1), true
		case "-oo":
			return (1 << uint(total-1)) | ((1<<uint(eb))-1)<<uint(sb-1), true
		case "NaN":
			return ((1<<uint(eb))-1)<<uint(sb-1) | 1<<uint(sb-2), true
		}
	}
	return 0, false
}

// ---------- test generation ----------

type ReplayOutcome struct {
	Ran      bool     `json:"ran"`
	Verdict  string   `json:"verdict"` // fail | ok | precondition-false | unevaluable | no-model | not-replayable | build-error
	Failed   []string `json:"failed_clauses,omitempty"`
	Output   string   `json:"output,omitempty"`
	TestFile string   `json:"test_source,omitempty"`
	Inputs   string   `json:"inputs,omitempty"`
	Reason   string   `json:"reason,omitempty"`
}

func goString(s string) string { return strconv.Quote(s) }

// transformForInterp rewrites a clause into the call syntax the interpreter parses.
func transformForInterp(s string) string { return transformExpr(s) }

func (e *Engine) specSourcesFor(texts []string) []string {
	var out []string
	for _, sf := range e.specClosure(texts) {
		out = append(out, preprocessBody(sf.Text))
	}
	return out
}

// constsFor: package-level constants mentioned in the texts.
func constsFor(pkg *types.Package, texts []string) []string {
	seen := map[string]bool{}
	var out []string
	for _, name := range pkg.Scope().Names() {
		c, ok := pkg.Scope().Lookup(name).(*types.Const)
		if !ok {
			continue
		}
		for _, t := range texts {
			if containsIdent(t, name) && !seen[name] {
				seen[name] = true
				b, okb := c.Type().Underlying().(*types.Basic)
				if !okb {
					continue
				}
				switch {
				case b.Info()&types.IsInteger != 0:
					out = append(out, fmt.Sprintf("env.vars[%q] = int64(%s)", name, name))
				case b.Info()&types.IsString != 0:
					out = append(out, fmt.Sprintf("env.vars[%q] = string(%s)", name, name))
				case b.Info()&types.IsBoolean != 0:
					out = append(out, fmt.Sprintf("env.vars[%q] = bool(%s)", name, name))
				}
			}
		}
	}
	sort.Strings(out)
	return out
}

func (e *Engine) functionalBindings(texts []string) []string {
	var out []string
	for k, fc := range e.contracts.Funcs {
		if !fc.Functional {
			continue
		}
		fn := e.fnByKey[k]
		if fn == nil || fn.Signature.Recv() != nil {
			continue
		}
		res := fn.Signature.Results()
		for i := 0; i < res.Len(); i++ {
			names := []string{fmt.Sprintf("%s_%d", fc.Key, i)}
			if n := res.At(i).Name(); n != "" {
				names = append(names, fc.Key+"_"+n)
			}
			for _, nm := range names {
				used := false
				for _, t := range texts {
					if containsIdent(t, nm) {
						used = true
					}
				}
				if used {
					out = append(out, fmt.Sprintf("env.funcs[%q] = func(a []interface{}) interface{} { return verifCallReal(%s, a, %d) }", nm, fn.Name(), i))
				}
			}
		}
	}
	sort.Strings(out)
	return out
}

// BuildReplay generates the replay test for function fn with the model of f.
func (e *Engine) BuildReplay(x *Exec, fn *ssa.Function, fc *FuncContract, f *Failure, timeoutS int) (src string, pkgDir string, outc *ReplayOutcome) {
	outc = &ReplayOutcome{}
	if fn.Parent() != nil {
		outc.Verdict, outc.Reason = "not-replayable", "closures cannot be called from a test"
		return
	}
	pkg := pkgOf(fn)
	rc := &replayCtx{x: x, pkg: pkg, imports: map[string]string{}, first: true}
	// first pass: collect length terms
	type inp struct {
		name string
		typ  types.Type
		val  Val
	}
	var inputs []inp
	for _, p := range fn.Params {
		v := x.paramVals[p.Name()]
		if v == nil {
			outc.Verdict, outc.Reason = "not-replayable", "unnamed parameter"
			return
		}
		inputs = append(inputs, inp{p.Name(), p.Type(), v})
		rc.lit(v, p.Type(), 0)
	}
	var extra []string
	seen := map[string]bool{}
	for _, l := range rc.lens {
		if _, isLit := smtIntLit(l); isLit || seen[l] {
			continue
		}
		seen[l] = true
		extra = append(extra, fmt.Sprintf("(assert (<= %s %d))", l, maxReplayLen))
	}
	m, status := NewModelSession(f.Script, extra, timeoutS)
	if m == nil {
		// retry without the length bounds only to report what happened
		outc.Verdict, outc.Reason = "no-model", "no model with all input lengths <= "+strconv.Itoa(maxReplayLen)+" ("+status+")"
		return
	}
	defer m.Close()
	rc.m = m
	rc.first = false
	rc.bad = ""
	var decls []string
	var inputDesc []string
	for _, in := range inputs {
		l := rc.lit(in.val, in.typ, 0)
		decls = append(decls, fmt.Sprintf("\tvar %s %s = %s\n\tenv.vars[%q] = %s", safeIdent(in.name), rc.typeStr(in.typ), l, in.name, safeIdent(in.name)))
		inputDesc = append(inputDesc, in.name+" = "+l)
	}
	if rc.bad != "" {
		outc.Verdict, outc.Reason = "not-replayable", rc.bad
		return
	}
	outc.Inputs = strings.Join(inputDesc, "; ")
	// clause texts
	var texts []string
	for _, c := range fc.Requires {
		texts = append(texts, c.Text)
	}
	for _, c := range fc.Ensures {
		texts = append(texts, c.Text)
	}
	specs := e.specSourcesFor(texts)
	all := append(append([]string{}, texts...), specs...)
	var b strings.Builder
	b.WriteString("package " + pkg.Name() + "\n\nimport (\n\t\"fmt\"\n\t\"testing\"\n")
	needMath := strings.Contains(strings.Join(inputDesc, " "), "math.Float")
	if needMath {
		b.WriteString("\t\"math\"\n")
	}
	var ips []string
	for p := range rc.imports {
		ips = append(ips, p)
	}
	sort.Strings(ips)
	for _, p := range ips {
		if p == "math" && needMath {
			continue
		}
		b.WriteString(fmt.Sprintf("\t%s %q\n", rc.imports[p], p))
	}
	b.WriteString(")\n\nfunc TestVerifReplay(t *testing.T) {\n\tenv := newVerifEnv()\n")
	for _, s := range specs {
		b.WriteString("\tenv.addSpec(" + goString(s) + ")\n")
	}
	for _, l := range e.functionalBindings(all) {
		b.WriteString("\t" + l + "\n")
	}
	for _, l := range constsFor(pkg, all) {
		b.WriteString("\t" + l + "\n")
	}
	for _, d := range decls {
		b.WriteString(d + "\n")
	}
	for _, c := range fc.Requires {
		b.WriteString(fmt.Sprintf("\tif ok, err := verifEvalBool(env, %s); err != \"\" {\n\t\tfmt.Println(\"REPLAY-UNEVALUABLE requires#%d:\", err)\n\t\treturn\n\t} else if !ok {\n\t\tfmt.Println(\"REPLAY-PRECONDITION-FALSE requires#%d\")\n\t\treturn\n\t}\n", goString(transformForInterp(c.Text)), c.Ord, c.Ord))
	}
	b.WriteString("\told := env.child()\n\tenv.old = old\n")
	b.WriteString("\tbefore := fmt.Sprintf(\"%#v\", verifSnapshot(env))\n")
	res := fn.Signature.Results()
	var rnames []string
	for i := 0; i < res.Len(); i++ {
		rnames = append(rnames, fmt.Sprintf("r%d", i))
		b.WriteString(fmt.Sprintf("\tvar r%d %s\n", i, rc.typeStr(res.At(i).Type())))
	}
	call := ""
	var argNames []string
	for _, in := range inputs {
		argNames = append(argNames, safeIdent(in.name))
	}
	if fn.Signature.Recv() != nil {
		call = argNames[0] + "." + fn.Name() + "(" + strings.Join(argNames[1:], ", ") + ")"
	} else {
		call = fn.Name() + "(" + strings.Join(argNames, ", ") + ")"
	}
	if fn.Signature.Variadic() {
		call = strings.TrimSuffix(call, ")") + "...)"
	}
	assign := ""
	if len(rnames) > 0 {
		assign = strings.Join(rnames, ", ") + " = "
	}
	b.WriteString("\tpanicked, pv := verifRun(func() { " + assign + call + " })\n")
	b.WriteString("\tif panicked {\n\t\tfmt.Printf(\"REPLAY-PANIC %v\\n\", pv)\n\t\tfmt.Println(\"REPLAY-FAIL nopanic\")\n\t\treturn\n\t}\n")
	for i := 0; i < res.Len(); i++ {
		b.WriteString(fmt.Sprintf("\tenv.vars[\"result%d\"] = r%d\n", i, i))
		if n := res.At(i).Name(); n != "" && n != "_" {
			b.WriteString(fmt.Sprintf("\tenv.vars[%q] = r%d\n", n, i))
		}
		if i == 0 {
			b.WriteString("\tenv.vars[\"result\"] = r0\n")
		}
	}
	b.WriteString("\tfailed := 0\n")
	if fc.HasAssign && len(fc.Assigns) == 1 && fc.Assigns[0] == "nothing" {
		b.WriteString("\tif after := fmt.Sprintf(\"%#v\", verifSnapshot(old)); after != before {\n\t\tfmt.Println(\"REPLAY-FAIL assigns: inputs changed\\n  before:\", before, \"\\n  after: \", after)\n\t\tfailed++\n\t}\n")
	}
	for _, c := range fc.Ensures {
		if c.When == "panic" {
			continue
		}
		b.WriteString(fmt.Sprintf("\tif ok, err := verifEvalBool(env, %s); err != \"\" {\n\t\tfmt.Println(\"REPLAY-UNEVALUABLE ensures#%d:\", err)\n\t} else if !ok {\n\t\tfmt.Println(\"REPLAY-FAIL ensures#%d\")\n\t\tfailed++\n\t}\n", goString(transformForInterp(c.Text)), c.Ord, c.Ord))
	}
	b.WriteString("\tif failed == 0 {\n\t\tfmt.Println(\"REPLAY-OK\")\n\t}\n}\n\n")
	b.WriteString(`// verifSnapshot renders the input values reachable from the environment.
func verifSnapshot(e *verifEnv) []string {
	var out []string
	for k, v := range e.vars {
		out = append(out, k+"="+verifDump(v, 0))
	}
	sortStrings(out)
	return out
}

func sortStrings(a []string) {
	for i := 1; i < len(a); i++ {
		for j := i; j > 0 && a[j] < a[j-1]; j-- {
			a[j], a[j-1] = a[j-1], a[j]
		}
	}
}

func verifDump(v interface{}, d int) string {
	if d > 3 {
		return "..."
	}
	return fmt.Sprintf("%+v", verifDeref(v, d))
}

func verifDeref(v interface{}, d int) interface{} {
	type srcLike interface{}
	switch x := v.(type) {
	case nil:
		return nil
	default:
		_ = x
	}
	return verifDerefReflect(v, d)
}
`)
	src = b.String()
	// directory of the package
	for _, p := range e.pkgs {
		_ = p
	}
	pkgDir = e.pkgDir(pkg.Path())
	return src, pkgDir, outc
}

func safeIdent(n string) string {
	switch n {
	case "env", "old", "before", "failed", "panicked", "pv", "t":
		return n + "_"
	}
	return n
}

func (e *Engine) pkgDir(path string) string {
	rel := strings.TrimPrefix(strings.TrimPrefix(path, repoModule), "/")
	return filepath.Join(e.repo, rel)
}

const replayExtra = `
func verifDerefReflect(v interface{}, d int) interface{} {
	rv, ok := v.(reflect.Value)
	if !ok {
		rv = reflect.ValueOf(v)
	}
	if !rv.IsValid() {
		return nil
	}
	switch rv.Kind() {
	case reflect.Ptr, reflect.Interface:
		if rv.IsNil() {
			return nil
		}
		return verifDerefReflect(rv.Elem(), d+1)
	case reflect.Struct:
		var parts []string
		for i := 0; i < rv.NumField(); i++ {
			parts = append(parts, rv.Type().Field(i).Name+":"+fmt.Sprint(verifDerefReflect(rv.Field(i), d+1)))
		}
		return "{" + strings.Join(parts, " ") + "}"
	case reflect.Slice:
		if rv.Type().Elem().Kind() == reflect.Uint8 {
			return fmt.Sprintf("%q", rv.Bytes())
		}
		var parts []string
		for i := 0; i < rv.Len() && i < 32; i++ {
			parts = append(parts, fmt.Sprint(verifDerefReflect(rv.Index(i), d+1)))
		}
		return "[" + strings.Join(parts, " ") + "]"
	case reflect.Func:
		return "func"
	}
	return fmt.Sprint(verifNorm(rv))
}
`

// RunReplay runs the generated test against the real package via -overlay.
func (e *Engine) RunReplay(src, pkgDir string, outc *ReplayOutcome) {
	dir := filepath.Join(scratchDir(), fmt.Sprintf("replay%d", time.Now().UnixNano()))
	os.MkdirAll(dir, 0o755)
	defer os.RemoveAll(dir)
	pkgName := ""
	if i := strings.Index(src, "package "); i >= 0 {
		pkgName = strings.Fields(src[i+8:])[0]
	}
	testFile := filepath.Join(dir, "zz_verif_replay_test.go")
	interpFile := filepath.Join(dir, "zz_verif_interp_test.go")
	os.WriteFile(testFile, []byte(src), 0o644)
	os.WriteFile(interpFile, []byte(strings.Replace(interpSource, "package PKGNAME", "package "+pkgName, 1)+replayExtra), 0o644)
	ov := map[string]map[string]string{"Replace": {
		filepath.Join(pkgDir, "zz_verif_replay_test.go"): testFile,
		filepath.Join(pkgDir, "zz_verif_interp_test.go"): interpFile,
	}}
	ovData, _ := json.Marshal(ov)
	ovFile := filepath.Join(dir, "ov.json")
	os.WriteFile(ovFile, ovData, 0o644)
	cmd := exec.Command("go", "test", "-tags", "verif", "-overlay", ovFile, "-vet=off", "-count=1", "-v", "-timeout", "60s", "-run", "^TestVerifReplay$", ".")
	cmd.Dir = pkgDir
	cmd.Env = append(os.Environ(), "GOFLAGS=-mod=mod", "GOPROXY=off", "GOSUMDB=off", "GOTOOLCHAIN=local")
	out, _ := cmd.CombinedOutput()
	outc.Ran = true
	outc.Output = string(out)
	if len(outc.Output) > 6000 {
		outc.Output = outc.Output[:6000]
	}
	outc.TestFile = src
	switch {
	case strings.Contains(outc.Output, "REPLAY-FAIL"):
		outc.Verdict = "fail"
		for _, l := range strings.Split(outc.Output, "\n") {
			if strings.HasPrefix(l, "REPLAY-FAIL") {
				outc.Failed = append(outc.Failed, strings.TrimSpace(strings.TrimPrefix(l, "REPLAY-FAIL")))
			}
		}
	case strings.Contains(outc.Output, "REPLAY-OK"):
		outc.Verdict = "ok"
	case strings.Contains(outc.Output, "REPLAY-PRECONDITION-FALSE"):
		outc.Verdict = "precondition-false"
	case strings.Contains(outc.Output, "panic: test timed out"):
		outc.Verdict = "fail"
		outc.Failed = append(outc.Failed, "termination (replay timed out after 60s)")
	case strings.Contains(outc.Output, "[build failed]") || strings.Contains(outc.Output, "[setup failed]"):
		outc.Verdict = "build-error"
	case strings.Contains(outc.Output, "fatal error: stack overflow") || strings.Contains(outc.Output, "panic:"):
		outc.Verdict = "fail"
		outc.Failed = append(outc.Failed, "crash of the test binary (uncaught panic / stack overflow)")
	default:
		outc.Verdict = "unevaluable"
	}
}
