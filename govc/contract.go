package main

// Contract files: comment-only Go files zz_verif_contracts.go (build tag
// verif) next to the code. Every line of interest starts with "//@".

import (
	"fmt"
	"go/ast"
	"go/parser"
	"go/token"
	"os"
	"path/filepath"
	"regexp"
	"sort"
	"strconv"
	"strings"
)

type Clause struct {
	Kind  string // requires | ensures | invariant | decreases | assert
	Text  string
	Expr  ast.Expr
	Props []string
	Ord   int // ordinal among clauses of the same kind in the function
	Line  string
	Loop  int
	When  string // for ensures: "return" (default) | "panic"
}

type LoopContract struct {
	Invariants []*Clause
	Decreases  *Clause
	Ensures    []*Clause // "loop N ensures E": holds at the end of every iteration (at each back edge)
	Ordered    *Clause   // "loop N ordered": must not be a range over a map
	Over       *Clause // loop N over E: iteration domain
	NoPanic    *Clause // loop N nopanic: a panic inside an iteration does not leave the loop
}

type Guarded struct {
	Classes []string
	Lock    *Clause
}

type CallSite struct { // "at call <callee>: assert <cond>"
	Callee string
	Clause *Clause
}

type FuncContract struct {
	Pkg            string // package import path
	Key            string // function key within package
	File           string
	Props          []string
	Requires       []*Clause
	Ensures        []*Clause
	Loops          map[int]*LoopContract
	CallSites      []*CallSite
	Guarded        []*Guarded // heap classes that may only be accessed while a lock is held
	AtReturn       []*Clause  // "at return: assert c": checked at every return, before deferred calls run
	Assigns        []string   // nil = unspecified (anything); ["nothing"]; or list of lvalue patterns
	HasAssign      bool
	NoPanic        bool
	Trusted        bool // assumed, not verified (external dependency or declared so)
	Pure           bool // no heap effects, result deterministic function of args+heap
	Functional     bool // results are a (named, uninterpreted) function of the argument values
	Safety         bool // emit automatic safety obligations (default true)
	Inline         bool // force inlining at call sites even though a contract exists
	OrderFree      bool // every slice appended to inside a range-over-map loop is sorted afterwards
	OrderFreeProps []string
	Reads          []string // struct fields that must be read (pkg.Type.Field)
	ReadsProps     []string
	Opts           map[string]string
	Bound          bool
}

type SpecFunc struct {
	Pkg    string
	Name   string
	Decl   *ast.FuncDecl
	Text   string
	Axioms []string
}

type Contracts struct {
	Funcs map[string]*FuncContract // pkg + "::" + key
	Specs map[string]*SpecFunc     // name (global namespace per package; looked up pkg-first)
	Files []string
}

func ckey(pkg, key string) string { return pkg + "::" + key }

var clauseRe = regexp.MustCompile(`^(requires|ensures|panics|assigns|nopanic|props|loop|at|trusted|pure|functional|nosafety|inline|opt|guarded|orderfree|reads)\b(\[[A-Z0-9, ]+\])?\s*(.*)$`)

func LoadContracts(repo string, pkgDirs map[string]string) (*Contracts, error) {
	cs := &Contracts{Funcs: map[string]*FuncContract{}, Specs: map[string]*SpecFunc{}}
	var paths []string
	for p := range pkgDirs {
		paths = append(paths, p)
	}
	sort.Strings(paths)
	for _, pkgPath := range paths {
		dir := pkgDirs[pkgPath]
		matches, _ := filepath.Glob(filepath.Join(dir, "zz_verif_contracts*.go"))
		sort.Strings(matches)
		for _, f := range matches {
			if err := cs.loadFile(pkgPath, f); err != nil {
				return nil, err
			}
			cs.Files = append(cs.Files, f)
		}
	}
	return cs, nil
}

func (cs *Contracts) loadFile(pkgPath, file string) error {
	data, err := os.ReadFile(file)
	if err != nil {
		return err
	}
	// gather //@ lines with continuation (trailing backslash)
	var lines []string
	var cur string
	for _, raw := range strings.Split(string(data), "\n") {
		t := strings.TrimSpace(raw)
		if !strings.HasPrefix(t, "//@") {
			continue
		}
		t = strings.TrimSpace(t[3:])
		if t == "" || strings.HasPrefix(t, "#") {
			continue
		}
		if strings.HasSuffix(t, "\\") {
			cur += strings.TrimSuffix(t, "\\") + " "
			continue
		}
		lines = append(lines, cur+t)
		cur = ""
	}
	var fc *FuncContract
	counts := map[string]int{}
	for i := 0; i < len(lines); i++ {
		l := lines[i]
		switch {
		case strings.HasPrefix(l, "spec func "):
			// collect until braces balance
			text := l[len("spec "):]
			for !braceBalanced(text) && i+1 < len(lines) {
				i++
				text += "\n" + lines[i]
			}
			sf, err := parseSpecFunc(pkgPath, text)
			if err != nil {
				return fmt.Errorf("%s: spec func: %v\n%s", file, err, text)
			}
			cs.Specs[sf.Name] = sf
			fc = nil
		case strings.HasPrefix(l, "func "):
			key := strings.TrimSpace(l[5:])
			fc = &FuncContract{Pkg: pkgPath, Key: key, File: file, Loops: map[int]*LoopContract{}, Safety: true, Opts: map[string]string{}}
			if old, ok := cs.Funcs[ckey(pkgPath, key)]; ok {
				fc = old
			} else {
				cs.Funcs[ckey(pkgPath, key)] = fc
			}
			counts = map[string]int{}
		case strings.HasPrefix(l, "extern func "):
			// extern func <pkgpath>.<key> : assumed contract of a dependency
			full := strings.TrimSpace(l[len("extern func "):])
			idx := strings.LastIndex(full, "::")
			if idx < 0 {
				return fmt.Errorf("%s: extern func needs pkg::key: %s", file, l)
			}
			fc = &FuncContract{Pkg: full[:idx], Key: full[idx+2:], File: file, Loops: map[int]*LoopContract{}, Trusted: true, Opts: map[string]string{}}
			cs.Funcs[ckey(fc.Pkg, fc.Key)] = fc
			counts = map[string]int{}
		default:
			if fc == nil {
				return fmt.Errorf("%s: clause outside func: %s", file, l)
			}
			m := clauseRe.FindStringSubmatch(l)
			if m == nil {
				return fmt.Errorf("%s: cannot parse clause: %s", file, l)
			}
			kw, tag, rest := m[1], m[2], strings.TrimSpace(m[3])
			var props []string
			if tag != "" {
				for _, p := range strings.Split(strings.Trim(tag, "[]"), ",") {
					props = append(props, strings.TrimSpace(p))
				}
			}
			switch kw {
			case "props":
				fc.Props = strings.Fields(rest)
			case "nopanic":
				fc.NoPanic = true
			case "trusted":
				fc.Trusted = true
			case "pure":
				fc.Pure = true
			case "functional":
				fc.Functional = true
				fc.Pure = true
			case "reads":
				// reads pkg.Type.Field, ... : each listed struct field must be loaded by the function or
				// by a function of the same package reachable from it (static check on the SSA)
				for _, item := range strings.Split(rest, ",") {
					if item = strings.TrimSpace(item); item != "" {
						fc.Reads = append(fc.Reads, item)
					}
				}
				fc.ReadsProps = props
			case "orderfree":
				fc.OrderFree = true
				fc.OrderFreeProps = props
			case "nosafety":
				fc.Safety = false
			case "inline":
				fc.Inline = true
			case "guarded":
				// guarded <class-substr>[, <class-substr>...] by <lock expr>
				idx := strings.LastIndex(rest, " by ")
				if idx < 0 {
					return fmt.Errorf("%s: bad guarded clause: %s", file, l)
				}
				e, err := parseContractExpr(rest[idx+4:])
				if err != nil {
					return fmt.Errorf("%s: %s %s: %v", file, fc.Key, l, err)
				}
				g := &Guarded{Lock: &Clause{Kind: "guarded", Text: rest[idx+4:], Expr: e, Props: props, Line: l}}
				for _, c := range strings.Split(rest[:idx], ",") {
					g.Classes = append(g.Classes, strings.TrimSpace(c))
				}
				fc.Guarded = append(fc.Guarded, g)
			case "opt":
				kv := strings.SplitN(rest, "=", 2)
				if len(kv) == 2 {
					fc.Opts[strings.TrimSpace(kv[0])] = strings.TrimSpace(kv[1])
				}
			case "assigns":
				fc.HasAssign = true
				for _, a := range strings.Split(rest, ",") {
					fc.Assigns = append(fc.Assigns, strings.TrimSpace(a))
				}
			case "requires", "ensures", "panics":
				e, err := parseContractExpr(rest)
				if err != nil {
					return fmt.Errorf("%s: %s %s: %v", file, fc.Key, l, err)
				}
				counts[kw]++
				c := &Clause{Kind: kw, Text: rest, Expr: e, Props: props, Ord: counts[kw], Line: l}
				if kw == "requires" {
					fc.Requires = append(fc.Requires, c)
				} else {
					if kw == "panics" {
						c.Kind = "ensures"
						c.When = "panic"
					}
					fc.Ensures = append(fc.Ensures, c)
				}
			case "loop":
				// loop N invariant E | loop N decreases E
				if dm := regexp.MustCompile(`^(\d+)\s+ordered\s*$`).FindStringSubmatch(rest); dm != nil {
					// loop N ordered: the loop emits output in iteration order, so it must not range over a map
					n, _ := strconv.Atoi(dm[1])
					lc := fc.Loops[n]
					if lc == nil {
						lc = &LoopContract{}
						fc.Loops[n] = lc
					}
					lc.Ordered = &Clause{Kind: "ordered", Text: "loop " + dm[1] + " iterates in a defined order (not over a map)", Props: props, Line: l, Loop: n}
					continue
				}
				if dm := regexp.MustCompile(`^(\d+)\s+nopanic\s*$`).FindStringSubmatch(rest); dm != nil {
					// loop N nopanic: no panic raised inside an iteration leaves the loop (every element is processed
					// even when a callback in the body panics: the body must contain its own recovery)
					n, _ := strconv.Atoi(dm[1])
					lc := fc.Loops[n]
					if lc == nil {
						lc = &LoopContract{}
						fc.Loops[n] = lc
					}
					lc.NoPanic = &Clause{Kind: "loop-nopanic", Text: "no panic raised inside an iteration of loop " + dm[1] + " leaves the loop", Props: props, Line: l, Loop: n}
					continue
				}
				parts := strings.SplitN(rest, " ", 3)
				if len(parts) < 3 {
					return fmt.Errorf("%s: bad loop clause: %s", file, l)
				}
				n, err := strconv.Atoi(parts[0])
				if err != nil {
					return fmt.Errorf("%s: bad loop ordinal: %s", file, l)
				}
				lc := fc.Loops[n]
				if lc == nil {
					lc = &LoopContract{}
					fc.Loops[n] = lc
				}
				e, err := parseContractExpr(parts[2])
				if err != nil {
					return fmt.Errorf("%s: %s %s: %v", file, fc.Key, l, err)
				}
				c := &Clause{Kind: parts[1], Text: parts[2], Expr: e, Props: props, Line: l, Loop: n}
				switch parts[1] {
				case "over":
					// loop N over E: the loop ranges over exactly the value of E (its iteration domain)
					c.Kind = "over"
					lc.Over = c
				case "invariant":
					c.Ord = len(lc.Invariants) + 1
					lc.Invariants = append(lc.Invariants, c)
				case "decreases":
					lc.Decreases = c
				case "ensures":
					c.Ord = len(lc.Ensures) + 1
					lc.Ensures = append(lc.Ensures, c)
				default:
					return fmt.Errorf("%s: bad loop clause kind: %s", file, l)
				}
			case "at":
				// at call <callee>: assert <cond>
				if rm := regexp.MustCompile(`^return\s*:\s*assert\s+(.*)$`).FindStringSubmatch(rest); rm != nil {
					e, err := parseContractExpr(rm[1])
					if err != nil {
						return fmt.Errorf("%s: %s %s: %v", file, fc.Key, l, err)
					}
					counts["atreturn"]++
					fc.AtReturn = append(fc.AtReturn, &Clause{Kind: "atreturn", Text: rm[1], Expr: e, Props: props, Ord: counts["atreturn"], Line: l})
					continue
				}
				mm := regexp.MustCompile(`^call\s+(\S+)\s*:\s*assert\s+(.*)$`).FindStringSubmatch(rest)
				if mm == nil {
					return fmt.Errorf("%s: bad call-site clause: %s", file, l)
				}
				e, err := parseContractExpr(mm[2])
				if err != nil {
					return fmt.Errorf("%s: %s %s: %v", file, fc.Key, l, err)
				}
				counts["callsite"]++
				fc.CallSites = append(fc.CallSites, &CallSite{Callee: mm[1], Clause: &Clause{Kind: "callsite", Text: mm[2], Expr: e, Props: props, Ord: counts["callsite"], Line: l}})
			}
		}
	}
	return nil
}

func braceBalanced(s string) bool {
	d := 0
	seen := false
	inStr, inChr := false, false
	for i := 0; i < len(s); i++ {
		c := s[i]
		if inStr {
			if c == '\\' {
				i++
			} else if c == '"' {
				inStr = false
			}
			continue
		}
		if inChr {
			if c == '\\' {
				i++
			} else if c == '\'' {
				inChr = false
			}
			continue
		}
		switch c {
		case '"':
			inStr = true
		case '\'':
			inChr = true
		case '{':
			d++
			seen = true
		case '}':
			d--
		}
	}
	return seen && d == 0
}

func parseSpecFunc(pkg, text string) (*SpecFunc, error) {
	src := "package p\n" + preprocessBody(text)
	fset := token.NewFileSet()
	f, err := parser.ParseFile(fset, "spec.go", src, 0)
	if err != nil {
		return nil, err
	}
	for _, d := range f.Decls {
		if fd, ok := d.(*ast.FuncDecl); ok {
			return &SpecFunc{Pkg: pkg, Name: fd.Name.Name, Decl: fd, Text: text}, nil
		}
	}
	return nil, fmt.Errorf("no function")
}

// preprocessBody rewrites ==> inside return expressions of a spec func body.
func preprocessBody(text string) string {
	// only expressions after "return" up to ';' or '}' or newline may contain ==>
	if !strings.Contains(text, "==>") && !strings.Contains(text, "forall ") {
		return text
	}
	var out strings.Builder
	rest := text
	for {
		idx := strings.Index(rest, "return ")
		if idx < 0 {
			out.WriteString(rest)
			break
		}
		out.WriteString(rest[:idx+7])
		rest = rest[idx+7:]
		// find end of expression: first top-level ';' '}' or newline
		end := exprEnd(rest)
		out.WriteString(transformExpr(rest[:end]))
		rest = rest[end:]
	}
	return out.String()
}

func exprEnd(s string) int {
	d := 0
	for i := 0; i < len(s); i++ {
		c := s[i]
		switch c {
		case '\'':
			i = skipLit(s, i, '\'')
		case '"':
			i = skipLit(s, i, '"')
		case '(', '[':
			d++
		case ')', ']':
			d--
		case ';', '}', '\n':
			if d == 0 {
				return i
			}
		}
	}
	return len(s)
}

func skipLit(s string, i int, q byte) int {
	for j := i + 1; j < len(s); j++ {
		if s[j] == '\\' {
			j++
			continue
		}
		if s[j] == q {
			return j
		}
	}
	return len(s) - 1
}

func parseContractExpr(s string) (ast.Expr, error) {
	t := transformExpr(s)
	e, err := parser.ParseExpr(t)
	if err != nil {
		return nil, fmt.Errorf("%v (after rewriting to %q)", err, t)
	}
	return e, nil
}

// transformExpr rewrites the contract-only operators into Go call syntax:
//
//	A ==> B               implies_(A, B)      (right associative, lowest)
//	A <==> B              iff_(A, B)
//	forall x in lo..hi: P forall_(x, lo, hi, P)   (exists likewise)
func transformExpr(s string) string {
	s = strings.TrimSpace(s)
	// 1. transform inside parenthesised / bracketed groups
	var b strings.Builder
	for i := 0; i < len(s); i++ {
		c := s[i]
		switch c {
		case '\'', '"', '`':
			j := skipLit(s, i, c)
			b.WriteString(s[i : j+1])
			i = j
		case '(':
			j := matchParen(s, i)
			inner := s[i+1 : j]
			parts := splitTop(inner, ',')
			for k := range parts {
				parts[k] = transformExpr(parts[k])
			}
			b.WriteByte('(')
			b.WriteString(strings.Join(parts, ", "))
			b.WriteByte(')')
			i = j
		default:
			b.WriteByte(c)
		}
	}
	s = b.String()
	// 2. quantifier at head
	for _, q := range []string{"forall", "exists"} {
		if strings.HasPrefix(s, q+" ") {
			rest := s[len(q)+1:]
			in := strings.Index(rest, " in ")
			col := topIndex(rest, ":")
			if in > 0 && col > in {
				v := strings.TrimSpace(rest[:in])
				rng := rest[in+4 : col]
				dd := topIndex(rng, "..")
				if dd > 0 {
					lo, hi := rng[:dd], rng[dd+2:]
					body := rest[col+1:]
					return fmt.Sprintf("%s_(%s, %s, %s, %s)", q, v, transformExpr(lo), transformExpr(hi), transformExpr(body))
				}
			}
		}
	}
	// 3. top-level <==> and ==>
	if i := topIndex(s, "<==>"); i >= 0 {
		return "iff_(" + transformExpr(s[:i]) + ", " + transformExpr(s[i+4:]) + ")"
	}
	if i := topIndex(s, "==>"); i >= 0 {
		return "implies_(" + transformExpr(s[:i]) + ", " + transformExpr(s[i+3:]) + ")"
	}
	return s
}

func matchParen(s string, i int) int {
	d := 0
	for j := i; j < len(s); j++ {
		switch s[j] {
		case '\'', '"', '`':
			j = skipLit(s, j, s[j])
		case '(':
			d++
		case ')':
			d--
			if d == 0 {
				return j
			}
		}
	}
	return len(s) - 1
}

func splitTop(s string, sep byte) []string {
	var parts []string
	d := 0
	last := 0
	for i := 0; i < len(s); i++ {
		switch s[i] {
		case '\'', '"', '`':
			i = skipLit(s, i, s[i])
		case '(', '[', '{':
			d++
		case ')', ']', '}':
			d--
		default:
			if s[i] == sep && d == 0 {
				parts = append(parts, s[last:i])
				last = i + 1
			}
		}
	}
	parts = append(parts, s[last:])
	return parts
}

func topIndex(s, pat string) int {
	d := 0
	for i := 0; i < len(s); i++ {
		switch s[i] {
		case '\'', '"', '`':
			i = skipLit(s, i, s[i])
			continue
		case '(', '[', '{':
			d++
			continue
		case ')', ']', '}':
			d--
			continue
		}
		if d == 0 && strings.HasPrefix(s[i:], pat) {
			// do not confuse "==>" inside "<==>"
			if pat == "==>" && i > 0 && s[i-1] == '<' {
				continue
			}
			return i
		}
	}
	return -1
}
